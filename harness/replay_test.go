//go:build verif

package apd

import (
	"encoding/json"
	"fmt"
	"os"
	"strconv"
	"testing"
	"time"
)

// TestVerifReplay runs harness cases natively. Input: VERIF_REPLAY_IN (JSON
// array of cases), output: VERIF_REPLAY_OUT (JSON array of results, same
// order). A case that does not return within VERIF_REPLAY_TIMEOUT_MS is
// reported as a hang and the process exits (the driver restarts after it).
func TestVerifReplay(t *testing.T) {
	in, out := os.Getenv("VERIF_REPLAY_IN"), os.Getenv("VERIF_REPLAY_OUT")
	if in == "" {
		t.Skip("no replay input")
	}
	raw, err := os.ReadFile(in)
	if err != nil {
		t.Fatal(err)
	}
	var cases []verifCaseT
	if err := json.Unmarshal(raw, &cases); err != nil {
		t.Fatal(err)
	}
	tmo := 20000
	if s := os.Getenv("VERIF_REPLAY_TIMEOUT_MS"); s != "" {
		tmo, _ = strconv.Atoi(s)
	}
	results := make([]verifResultT, len(cases))
	flush := func() {
		b, _ := json.Marshal(results)
		os.WriteFile(out, b, 0o644)
	}
	for i := range cases {
		c := &cases[i]
		res := &results[i]
		res.Observed = map[string]string{}
		h, ok := verifHarnesses[c.Harness]
		if !ok {
			res.Panic = "unknown harness " + c.Harness
			res.Ran = true
			continue
		}
		done := make(chan struct{})
		go func() {
			defer close(done)
			defer func() {
				if r := recover(); r != nil {
					if _, ok := r.(verifAssumeFail); ok {
						res.AssumeOut = true
						return
					}
					res.Panic = fmt.Sprint(r)
				}
			}()
			verifCur, verifRes, verifFrozen = c, res, nil
			h()
		}()
		select {
		case <-done:
			res.Ran = true
		case <-time.After(time.Duration(tmo) * time.Millisecond):
			res.Ran = true
			res.Hang = true
			flush()
			os.Exit(3)
		}
	}
	flush()
}
