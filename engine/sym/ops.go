package sym

import (
	"go/token"
	"go/types"
	"math"
	"math/big"

	"golang.org/x/tools/go/ssa"
)

func bmin(a, b *big.Int) *big.Int {
	if a.Cmp(b) <= 0 {
		return a
	}
	return b
}
func bmax(a, b *big.Int) *big.Int {
	if a.Cmp(b) >= 0 {
		return a
	}
	return b
}

// mkInt builds an Int-encoded IntV for a machine type, wrapping if the interval may leave the type.
func (ex *Exec) mkInt(t *Term, lo, hi *big.Int, typ types.Type) IntV {
	bits, signed, ok := intKind(typ)
	if !ok {
		return IntV{T: t, Lo: lo, Hi: hi}
	}
	tlo, thi := typeRange(bits, signed)
	if t.IsConst() {
		v := t.Val
		if v.Cmp(tlo) < 0 || v.Cmp(thi) > 0 {
			v = wrapConst(v, bits, signed)
		}
		return ConstBig(v)
	}
	if lo != nil && hi != nil && lo.Cmp(tlo) >= 0 && hi.Cmp(thi) <= 0 {
		return IntV{T: t, Lo: lo, Hi: hi}
	}
	return IntV{T: wrapTerm(t, bits, signed), Lo: tlo, Hi: thi}
}

func wrapConst(v *big.Int, bits int, signed bool) *big.Int {
	m := new(big.Int).Lsh(bigOneI, uint(bits))
	r := new(big.Int).Mod(v, m)
	if signed {
		half := new(big.Int).Lsh(bigOneI, uint(bits-1))
		if r.Cmp(half) >= 0 {
			r.Sub(r, m)
		}
	}
	return r
}

func wrapTerm(t *Term, bits int, signed bool) *Term {
	m := IntConst(new(big.Int).Lsh(bigOneI, uint(bits)))
	if !signed {
		return FMod(t, m)
	}
	half := IntConst(new(big.Int).Lsh(bigOneI, uint(bits-1)))
	return Sub(FMod(Add(t, half), m), half)
}

// toBV converts an integer value to a bit-vector term of the given width.
func toBV(v IntV, w int, signedSrc bool) *Term {
	if v.IsBV() {
		sw := int(v.T.Sort)
		switch {
		case sw == w:
			return v.T
		case sw > w:
			return BVExtract(w-1, 0, v.T)
		default:
			if signedSrc {
				return BVSignExt(w-sw, v.T)
			}
			return BVZeroExt(w-sw, v.T)
		}
	}
	return Int2BV(w, v.T)
}

// tdiv encodes Go/math-big truncated division and remainder on Int terms.
func tdiv(x, y IntV) (q, r *Term) {
	xNonNeg := x.Lo != nil && x.Lo.Sign() >= 0
	yPos := y.Lo != nil && y.Lo.Sign() > 0
	if xNonNeg && yPos {
		return FDiv(x.T, y.T), FMod(x.T, y.T)
	}
	ax, ay := Abs(x.T), Abs(y.T)
	qa := FDiv(ax, ay)
	neg := Not(Eq(Lt(x.T, IntConst64(0)), Lt(y.T, IntConst64(0))))
	q = Ite(neg, Neg(qa), qa)
	r = Sub(x.T, Mul(y.T, q))
	return
}

func divInterval(x, y IntV) (qlo, qhi, rlo, rhi *big.Int) {
	if x.Lo == nil || x.Hi == nil {
		return nil, nil, nil, nil
	}
	ax := bmax(new(big.Int).Abs(x.Lo), new(big.Int).Abs(x.Hi))
	qlo, qhi = new(big.Int).Neg(ax), ax
	rlo, rhi = new(big.Int).Neg(ax), ax
	if x.Lo.Sign() >= 0 {
		rlo = big.NewInt(0)
		if y.Lo != nil && y.Lo.Sign() > 0 {
			qlo = big.NewInt(0)
		}
	}
	if y.Lo != nil && y.Hi != nil {
		ay := bmax(new(big.Int).Abs(y.Lo), new(big.Int).Abs(y.Hi))
		ay = new(big.Int).Sub(ay, bigOneI)
		if ay.Cmp(rhi) < 0 {
			rhi = ay
			if rlo.Sign() < 0 {
				rlo = new(big.Int).Neg(ay)
			}
		}
	}
	return
}

func (ex *Exec) binop(op token.Token, xv, yv Value, xt types.Type, rt types.Type) Value {
	if isSymFloat(xv) || isSymFloat(yv) {
		return ex.floatBin(op, xv, yv)
	}
	switch x := xv.(type) {
	case BoolV:
		y := yv.(BoolV)
		switch op {
		case token.EQL:
			return BoolV{Eq(x.T, y.T)}
		case token.NEQ:
			return BoolV{Not(Eq(x.T, y.T))}
		case token.AND, token.LAND:
			return BoolV{And(x.T, y.T)}
		case token.OR, token.LOR:
			return BoolV{Or(x.T, y.T)}
		}
	case StrV:
		y := yv.(StrV)
		switch op {
		case token.ADD:
			return StrV{B: append(append([]*Term{}, x.B...), y.B...)}
		case token.EQL, token.NEQ:
			var eq *Term
			if len(x.B) != len(y.B) {
				eq = TFalse
			} else {
				cs := make([]*Term, len(x.B))
				for i := range x.B {
					cs[i] = Eq(x.B[i], y.B[i])
				}
				eq = And(cs...)
			}
			if op == token.NEQ {
				eq = Not(eq)
			}
			return BoolV{eq}
		case token.LSS, token.GTR, token.LEQ, token.GEQ:
			xs, ok1 := x.Concrete()
			ys, ok2 := y.Concrete()
			if ok1 && ok2 {
				switch op {
				case token.LSS:
					return ConstBool(xs < ys)
				case token.GTR:
					return ConstBool(xs > ys)
				case token.LEQ:
					return ConstBool(xs <= ys)
				default:
					return ConstBool(xs >= ys)
				}
			}
		}
	case PtrV:
		y, ok := yv.(PtrV)
		if ok {
			same := x.Obj == y.Obj && pathEq(x.Path, y.Path)
			if op == token.EQL {
				return ConstBool(same)
			}
			if op == token.NEQ {
				return ConstBool(!same)
			}
		}
	case IfaceV:
		y := yv.(IfaceV)
		same := false
		switch {
		case x.Typ == nil || y.Typ == nil:
			same = x.Typ == nil && y.Typ == nil
		case !types.Identical(x.Typ, y.Typ):
			same = false
		default:
			px, ok1 := x.V.(PtrV)
			py, ok2 := y.V.(PtrV)
			if ok1 && ok2 {
				same = px.Obj == py.Obj && pathEq(px.Path, py.Path)
			} else {
				ex.unsupported("interface comparison of non-pointer dynamic values")
			}
		}
		if op == token.EQL {
			return ConstBool(same)
		}
		return ConstBool(!same)
	case SliceV:
		y := yv.(SliceV)
		// only comparison with nil is legal
		isNil := x.Nil
		if !y.Nil {
			ex.unsupported("slice comparison")
		}
		if op == token.EQL {
			return ConstBool(isNil)
		}
		return ConstBool(!isNil)
	case FloatV:
		y := yv.(FloatV)
		switch op {
		case token.ADD:
			return FloatV{x.F + y.F}
		case token.SUB:
			return FloatV{x.F - y.F}
		case token.MUL:
			return FloatV{x.F * y.F}
		case token.QUO:
			return FloatV{x.F / y.F}
		case token.LSS:
			return ConstBool(x.F < y.F)
		case token.GTR:
			return ConstBool(x.F > y.F)
		case token.LEQ:
			return ConstBool(x.F <= y.F)
		case token.GEQ:
			return ConstBool(x.F >= y.F)
		case token.EQL:
			return ConstBool(x.F == y.F)
		case token.NEQ:
			return ConstBool(x.F != y.F)
		}
	case *ArrayV:
		y := yv.(*ArrayV)
		// array equality (used by BigInt.Sign on _inline)
		cs := []*Term{}
		for i := range x.E {
			e := ex.binop(token.EQL, x.E[i], y.E[i], xt.Underlying().(*types.Array).Elem(), types.Typ[types.Bool]).(BoolV)
			cs = append(cs, e.T)
		}
		eq := And(cs...)
		if op == token.NEQ {
			eq = Not(eq)
		}
		return BoolV{eq}
	case IntV:
		return ex.intBinop(op, x, yv.(IntV), xt, rt)
	}
	ex.unsupported("binop %s on %T", op, xv)
	return nil
}

func pathEq(a, b []int) bool {
	if len(a) != len(b) {
		return false
	}
	for i := range a {
		if a[i] != b[i] {
			return false
		}
	}
	return true
}

func (ex *Exec) intBinop(op token.Token, x, y IntV, xt types.Type, rt types.Type) Value {
	bits, signed, ok := intKind(xt)
	if !ok {
		bits, signed = 64, true
	}
	isCmp := op == token.EQL || op == token.NEQ || op == token.LSS || op == token.LEQ || op == token.GTR || op == token.GEQ
	isBit := op == token.AND || op == token.OR || op == token.XOR || op == token.AND_NOT || op == token.SHL || op == token.SHR

	// Decide the encoding.
	useBV := x.IsBV() || y.IsBV()
	if !useBV && isBit && !(x.IsConst() && y.IsConst()) {
		// try cheap Int encodings first
		if r := ex.intBitopCheap(op, x, y, bits, signed, rt); r != nil {
			return r
		}
		useBV = true
	}
	if useBV {
		xb := toBV(x, bits, signed)
		var yb *Term
		if op == token.SHL || op == token.SHR {
			// shift count may have a different type: zero-extend / truncate
			yv := y
			if yv.IsBV() {
				yb = toBV(yv, bits, false)
			} else {
				yb = Int2BV(bits, yv.T)
			}
		} else {
			yb = toBV(y, bits, signed)
		}
		if isCmp {
			var t *Term
			pre := "bvu"
			if signed {
				pre = "bvs"
			}
			switch op {
			case token.EQL:
				t = Eq(xb, yb)
			case token.NEQ:
				t = Not(Eq(xb, yb))
			case token.LSS:
				t = BVCmp(pre+"lt", xb, yb)
			case token.LEQ:
				t = BVCmp(pre+"le", xb, yb)
			case token.GTR:
				t = BVCmp(pre+"gt", xb, yb)
			case token.GEQ:
				t = BVCmp(pre+"ge", xb, yb)
			}
			return BoolV{t}
		}
		var t *Term
		switch op {
		case token.ADD:
			t = BVBin("bvadd", xb, yb)
		case token.SUB:
			t = BVBin("bvsub", xb, yb)
		case token.MUL:
			t = BVBin("bvmul", xb, yb)
		case token.QUO, token.REM:
			if ex.decide(Eq(yb, BVConst(bits, bigZero))) {
				ex.panicEvent("integer divide by zero")
			}
			switch {
			case op == token.QUO && signed:
				t = BVBin("bvsdiv", xb, yb)
			case op == token.QUO:
				t = BVBin("bvudiv", xb, yb)
			case signed:
				t = BVBin("bvsrem", xb, yb)
			default:
				t = BVBin("bvurem", xb, yb)
			}
		case token.AND:
			t = BVBin("bvand", xb, yb)
		case token.OR:
			t = BVBin("bvor", xb, yb)
		case token.XOR:
			t = BVBin("bvxor", xb, yb)
		case token.AND_NOT:
			t = BVBin("bvand", xb, BVNot(yb))
		case token.SHL:
			t = BVBin("bvshl", xb, yb)
		case token.SHR:
			if signed {
				t = BVBin("bvashr", xb, yb)
			} else {
				t = BVBin("bvlshr", xb, yb)
			}
		default:
			ex.unsupported("bv binop %s", op)
		}
		if t.IsConst() {
			// back to the canonical Int-encoded constant
			v := t.Val
			if signed {
				v = toSigned(bits, v)
			}
			return ConstBig(v)
		}
		return IntV{T: t}
	}

	// Int encoding.
	if isCmp {
		var t *Term
		switch op {
		case token.EQL:
			t = EqI(x.T, y.T)
		case token.NEQ:
			t = Not(EqI(x.T, y.T))
		case token.LSS:
			t = LtI(x.T, y.T)
		case token.LEQ:
			t = LeI(x.T, y.T)
		case token.GTR:
			t = LtI(y.T, x.T)
		case token.GEQ:
			t = LeI(y.T, x.T)
		}
		return BoolV{t}
	}
	if x.IsConst() && y.IsConst() && isBit {
		return ex.constBitop(op, x.Const(), y.Const(), bits, signed)
	}
	xlo, xhi := ex.bounds(x)
	ylo, yhi := ex.bounds(y)
	var t *Term
	var lo, hi *big.Int
	switch op {
	case token.ADD:
		t = Add(x.T, y.T)
		if xlo != nil && ylo != nil {
			lo = new(big.Int).Add(xlo, ylo)
		}
		if xhi != nil && yhi != nil {
			hi = new(big.Int).Add(xhi, yhi)
		}
	case token.SUB:
		t = Sub(x.T, y.T)
		if xlo != nil && yhi != nil {
			lo = new(big.Int).Sub(xlo, yhi)
		}
		if xhi != nil && ylo != nil {
			hi = new(big.Int).Sub(xhi, ylo)
		}
	case token.MUL:
		t = Mul(x.T, y.T)
		lo, hi = mulInterval(xlo, xhi, ylo, yhi)
	case token.QUO, token.REM:
		if !(ylo != nil && ylo.Sign() > 0) && !(yhi != nil && yhi.Sign() < 0) {
			if ex.decide(EqI(y.T, IntConst64(0))) {
				ex.panicEvent("integer divide by zero")
			}
		}
		xx := IntV{T: x.T, Lo: xlo, Hi: xhi}
		yy := IntV{T: y.T, Lo: ylo, Hi: yhi}
		q, r := tdiv(xx, yy)
		qlo, qhi, rlo, rhi := divInterval(xx, yy)
		if op == token.QUO {
			t, lo, hi = q, qlo, qhi
		} else {
			t, lo, hi = r, rlo, rhi
		}
	default:
		ex.unsupported("int binop %s", op)
	}
	return ex.mkInt(t, lo, hi, rt)
}

func mulInterval(xlo, xhi, ylo, yhi *big.Int) (*big.Int, *big.Int) {
	if xlo == nil || xhi == nil || ylo == nil || yhi == nil {
		return nil, nil
	}
	if xlo.BitLen()+ylo.BitLen() > 8192 || xhi.BitLen()+yhi.BitLen() > 8192 || xlo.BitLen()+yhi.BitLen() > 8192 || xhi.BitLen()+ylo.BitLen() > 8192 {
		return nil, nil // intervals are an optimisation only: give up on astronomically wide ones
	}
	ps := []*big.Int{
		new(big.Int).Mul(xlo, ylo), new(big.Int).Mul(xlo, yhi),
		new(big.Int).Mul(xhi, ylo), new(big.Int).Mul(xhi, yhi),
	}
	lo, hi := ps[0], ps[0]
	for _, p := range ps[1:] {
		lo, hi = bmin(lo, p), bmax(hi, p)
	}
	return lo, hi
}

func (ex *Exec) constBitop(op token.Token, a, b *big.Int, bits int, signed bool) Value {
	xa := BVConst(bits, a)
	xb := BVConst(bits, b)
	var t *Term
	switch op {
	case token.AND:
		t = BVBin("bvand", xa, xb)
	case token.OR:
		t = BVBin("bvor", xa, xb)
	case token.XOR:
		t = BVBin("bvxor", xa, xb)
	case token.AND_NOT:
		t = BVBin("bvand", xa, BVNot(xb))
	case token.SHL:
		t = BVBin("bvshl", xa, xb)
	case token.SHR:
		if signed {
			t = BVBin("bvashr", xa, xb)
		} else {
			t = BVBin("bvlshr", xa, xb)
		}
	}
	v := t.Val
	if signed {
		v = toSigned(bits, v)
	}
	return ConstBig(v)
}

// intBitopCheap handles bit operations that have a linear Int encoding.
func (ex *Exec) intBitopCheap(op token.Token, x, y IntV, bits int, signed bool, rt types.Type) Value {
	xlo, xhi := ex.bounds(x)
	switch op {
	case token.AND:
		// x & (2^k-1) with x >= 0
		c, v := y, x
		if x.IsConst() {
			c, v = x, y
			xlo, xhi = ex.bounds(y)
		}
		if c.IsConst() && xlo != nil && xlo.Sign() >= 0 {
			m := new(big.Int).Add(c.Const(), bigOneI)
			if c.Const().Sign() >= 0 && m.BitLen() > 0 && new(big.Int).And(m, c.Const()).Sign() == 0 {
				return IntV{T: FMod(v.T, IntConst(m)), Lo: big.NewInt(0), Hi: bmin(c.Const(), orInf(xhi, c.Const()))}
			}
		}
	case token.SHL:
		if y.IsConst() && y.Const().IsInt64() && y.Const().Int64() < int64(bits) {
			p := new(big.Int).Lsh(bigOneI, uint(y.Const().Int64()))
			lo, hi := mulInterval(xlo, xhi, p, p)
			return ex.mkInt(Mul(x.T, IntConst(p)), lo, hi, rt)
		}
	case token.SHR:
		if y.IsConst() && y.Const().IsInt64() && y.Const().Int64() < int64(bits) {
			p := new(big.Int).Lsh(bigOneI, uint(y.Const().Int64()))
			var lo, hi *big.Int
			if xlo != nil {
				lo = new(big.Int).Div(xlo, p)
			}
			if xhi != nil {
				hi = new(big.Int).Div(xhi, p)
			}
			return ex.mkInt(FDiv(x.T, IntConst(p)), lo, hi, rt)
		}
	}
	return nil
}

func orInf(a, def *big.Int) *big.Int {
	if a == nil {
		return def
	}
	return a
}

// Comparison helpers that push constants through ite leaves (keeps Cmp/Sign results simple).
func iteConstLeaves(t *Term) bool {
	if t.Op == "ite" {
		return iteConstLeaves(t.Args[1]) && iteConstLeaves(t.Args[2])
	}
	return t.IsConst()
}

func mapIte(t *Term, f func(*Term) *Term) *Term {
	if t.Op == "ite" {
		return Ite(t.Args[0], mapIte(t.Args[1], f), mapIte(t.Args[2], f))
	}
	return f(t)
}

func EqI(a, b *Term) *Term {
	if a.Op == "ite" && b.IsConst() && iteConstLeaves(a) {
		return mapIte(a, func(l *Term) *Term { return Eq(l, b) })
	}
	if b.Op == "ite" && a.IsConst() && iteConstLeaves(b) {
		return mapIte(b, func(l *Term) *Term { return Eq(a, l) })
	}
	return Eq(a, b)
}
func LtI(a, b *Term) *Term {
	if a.Op == "ite" && b.IsConst() && iteConstLeaves(a) {
		return mapIte(a, func(l *Term) *Term { return Lt(l, b) })
	}
	if b.Op == "ite" && a.IsConst() && iteConstLeaves(b) {
		return mapIte(b, func(l *Term) *Term { return Lt(a, l) })
	}
	return Lt(a, b)
}
func LeI(a, b *Term) *Term {
	if a.Op == "ite" && b.IsConst() && iteConstLeaves(a) {
		return mapIte(a, func(l *Term) *Term { return Le(l, b) })
	}
	if b.Op == "ite" && a.IsConst() && iteConstLeaves(b) {
		return mapIte(b, func(l *Term) *Term { return Le(a, l) })
	}
	return Le(a, b)
}

func (ex *Exec) unop(x *ssa.UnOp, v Value) Value {
	switch x.Op {
	case token.MUL: // load
		return ex.load(v.(PtrV))
	case token.NOT:
		return BoolV{Not(v.(BoolV).T)}
	case token.SUB:
		switch a := v.(type) {
		case FloatV:
			return FloatV{-a.F}
		case SymFloatV, NearestV:
			return ex.floatNeg(a)
		case IntV:
			bits, signed, _ := intKind(x.Type())
			if a.IsBV() {
				return IntV{T: BVNeg(toBV(a, bits, signed))}
			}
			lo, hi := ex.bounds(a)
			var nlo, nhi *big.Int
			if hi != nil {
				nlo = new(big.Int).Neg(hi)
			}
			if lo != nil {
				nhi = new(big.Int).Neg(lo)
			}
			return ex.mkInt(Neg(a.T), nlo, nhi, x.Type())
		}
	case token.XOR:
		a := v.(IntV)
		bits, signed, _ := intKind(x.Type())
		if a.IsConst() && !a.IsBV() {
			t := BVNot(BVConst(bits, a.Const()))
			val := t.Val
			if signed {
				val = toSigned(bits, val)
			}
			return ConstBig(val)
		}
		if !a.IsBV() && signed {
			// ^x == -x-1
			lo, hi := ex.bounds(a)
			var nlo, nhi *big.Int
			if hi != nil {
				nlo = new(big.Int).Sub(new(big.Int).Neg(hi), bigOneI)
			}
			if lo != nil {
				nhi = new(big.Int).Sub(new(big.Int).Neg(lo), bigOneI)
			}
			return ex.mkInt(Sub(Neg(a.T), IntConst64(1)), nlo, nhi, x.Type())
		}
		return IntV{T: BVNot(toBV(a, bits, signed))}
	}
	ex.unsupported("unop %s on %T", x.Op, v)
	return nil
}

func (ex *Exec) convert(v Value, from, to types.Type) Value {
	switch a := v.(type) {
	case IntV:
		if isFloat(to) {
			if !a.IsConst() {
				if b, ok := to.Underlying().(*types.Basic); !ok || b.Kind() != types.Float64 {
					ex.stop("cut_float", "symbolic int to float32 conversion")
				}
				_, fsigned, _ := intKind(from)
				return ex.intToFloat(a, fsigned)
			}
			f, _ := new(big.Float).SetInt(a.Const()).Float64()
			return FloatV{f}
		}
		if isString(to) {
			if a.IsConst() {
				return ConstStr(string(rune(a.Const().Int64())))
			}
			ex.unsupported("symbolic rune to string")
		}
		tb, tsigned, ok := intKind(to)
		if !ok {
			// unsafe.Pointer <- uintptr etc.
			return v
		}
		fb, fsigned, _ := intKind(from)
		if a.IsBV() {
			t := a.T
			sw := int(t.Sort)
			_ = fb
			switch {
			case sw > tb:
				t = BVExtract(tb-1, 0, t)
			case sw < tb && fsigned:
				t = BVSignExt(tb-sw, t)
			case sw < tb:
				t = BVZeroExt(tb-sw, t)
			}
			if t.IsConst() {
				val := t.Val
				if tsigned {
					val = toSigned(tb, val)
				}
				return ConstBig(val)
			}
			return IntV{T: t}
		}
		lo, hi := ex.bounds(a)
		return ex.mkInt(a.T, lo, hi, to)
	case FloatV:
		if isFloat(to) {
			if b, ok := to.Underlying().(*types.Basic); ok && b.Kind() == types.Float32 {
				return FloatV{float64(float32(a.F))}
			}
			return a
		}
		if _, _, ok := intKind(to); ok {
			if math.IsNaN(a.F) || math.IsInf(a.F, 0) {
				return ConstInt(math.MinInt64)
			}
			bf := new(big.Float).SetFloat64(math.Trunc(a.F))
			bi, _ := bf.Int(nil)
			return ex.mkInt(IntConst(bi), bi, bi, to)
		}
	case SymFloatV, NearestV:
		if b, ok := to.Underlying().(*types.Basic); ok && b.Kind() == types.Float64 {
			return a
		}
		if _, _, ok := intKind(to); ok {
			return ex.floatToInt(a, to)
		}
		ex.stop("cut_float", "conversion of a symbolic float")
	case StrV:
		if isString(to) {
			return a
		}
		if sl, ok := to.Underlying().(*types.Slice); ok {
			if b, ok := sl.Elem().Underlying().(*types.Basic); ok && b.Kind() == types.Uint8 {
				return ex.newByteSlice(a.B)
			}
		}
	case SliceV:
		if isString(to) {
			els := ex.sliceElems(a)
			bs := make([]*Term, len(els))
			for i, e := range els {
				bs[i] = e.(IntV).T
			}
			return StrV{B: bs}
		}
		return a
	case PtrV:
		// unsafe.Pointer conversions keep the pointer; a pointer to element 0 of an array
		// reinterpreted as a pointer to that array type becomes a pointer to the array
		if pt, ok := to.Underlying().(*types.Pointer); ok && a.Obj != nil && len(a.Path) > 0 {
			if at, ok := pt.Elem().Underlying().(*types.Array); ok && a.Path[len(a.Path)-1] == 0 {
				if _, isArr := getAt(a.Obj.V, a.Path).(*ArrayV); !isArr {
					if parent, ok := getAt(a.Obj.V, a.Path[:len(a.Path)-1]).(*ArrayV); ok && int64(len(parent.E)) == at.Len() {
						return PtrV{Obj: a.Obj, Path: append([]int{}, a.Path[:len(a.Path)-1]...)}
					}
				}
			}
		}
		return a
	}
	ex.unsupported("convert %T from %s to %s", v, from, to)
	return nil
}
