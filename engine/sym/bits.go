package sym

import (
	"fmt"
	"math/big"

	"golang.org/x/tools/go/ssa"
)

// bitsStub gives math/bits functions their documented bit-vector meaning.
func bitsStub(name string) interceptFn {
	bv64 := func(v Value) *Term { return toBV(v.(IntV), 64, false) }
	switch name {
	case "math/bits.Add64":
		return func(ex *Exec, a []Value, c *ssa.CallCommon) Value {
			x, y, ci := BVZeroExt(1, bv64(a[0])), BVZeroExt(1, bv64(a[1])), BVZeroExt(1, bv64(a[2]))
			s := BVBin("bvadd", BVBin("bvadd", x, y), ci)
			return TupleV{bvResult(BVExtract(63, 0, s)), bvResult(BVZeroExt(63, BVExtract(64, 64, s)))}
		}
	case "math/bits.Sub64":
		return func(ex *Exec, a []Value, c *ssa.CallCommon) Value {
			x, y, bi := BVZeroExt(1, bv64(a[0])), BVZeroExt(1, bv64(a[1])), BVZeroExt(1, bv64(a[2]))
			s := BVBin("bvsub", BVBin("bvsub", x, y), bi)
			return TupleV{bvResult(BVExtract(63, 0, s)), bvResult(BVZeroExt(63, BVExtract(64, 64, s)))}
		}
	case "math/bits.Mul64":
		return func(ex *Exec, a []Value, c *ssa.CallCommon) Value {
			hi, lo := ex.mul64(bv64(a[0]), bv64(a[1]))
			return TupleV{bvResult(hi), bvResult(lo)}
		}
	case "math/bits.Len", "math/bits.Len64":
		return func(ex *Exec, a []Value, c *ssa.CallCommon) Value {
			x := bv64(a[0])
			if x.IsConst() {
				return ConstInt(int64(x.Val.BitLen()))
			}
			// fork on the bit length
			for n := 0; n < 64; n++ {
				lim := BVConst(64, new(big.Int).Lsh(bigOneI, uint(n)))
				if ex.decide(BVCmp("bvult", x, lim)) {
					return ConstInt(int64(n))
				}
			}
			return ConstInt(64)
		}
	}
	return nil
}

func bvResult(t *Term) IntV {
	if t.IsConst() {
		return ConstBig(t.Val)
	}
	return IntV{T: t}
}

// mul64 is the 64x64->128 product. Constant operands fold; otherwise the product is an
// uninterpreted pair (hi, lo) per operand pair with the axiom "the product is zero iff a
// factor is zero" (and the 0/1 identities) - the fast paths and the reference share it, so
// the solver decides sign/zero/overflow bookkeeping and never bit-blasts a multiplier.
func (ex *Exec) mul64(x, y *Term) (*Term, *Term) {
	if x.IsConst() && y.IsConst() {
		p := new(big.Int).Mul(x.Val, y.Val)
		return BVConst(64, new(big.Int).Rsh(p, 64)), BVConst(64, p)
	}
	if x.id > y.id {
		x, y = y, x
	}
	key := [2]*Term{x, y}
	if ex.mulMemo == nil {
		ex.mulMemo = map[[2]*Term][2]*Term{}
	}
	if r, ok := ex.mulMemo[key]; ok {
		return r[0], r[1]
	}
	ex.ufSeq++
	hi := Var(fmt.Sprintf("fv64!mulhi!%d", ex.ufSeq), Sort(64))
	lo := Var(fmt.Sprintf("fv64!mullo!%d", ex.ufSeq), Sort(64))
	z := BVConst(64, bigZero)
	one := BVConst(64, bigOneI)
	ex.assumeT(Eq(And(Eq(hi, z), Eq(lo, z)), Or(Eq(x, z), Eq(y, z))))
	ex.assumeT(Implies(Eq(x, one), And(Eq(hi, z), Eq(lo, y))))
	ex.assumeT(Implies(Eq(y, one), And(Eq(hi, z), Eq(lo, x))))
	ex.mulMemo[key] = [2]*Term{hi, lo}
	return hi, lo
}
