//go:build verif

package apd

// verifRoundsUpTo reports whether rounding X/T (X, T > 0 integers, magnitude of a value with
// sign neg) in the context's mode yields at least top+1, i.e. the rounded magnitude does not
// fit below 'top' (top = 10^n - 1, odd).
func verifRoundsUpTo(c *Context, neg bool, X, T, top *BigInt) bool {
	var topT, top1T, twoX, twoTop BigInt
	topT.Mul(top, T)
	top1T.Add(&topT, T) // (top+1)*T
	twoX.Add(X, X)
	twoTop.Add(&topT, &topT)
	twoTop.Add(&twoTop, T) // (2*top+1)*T
	big := X.Cmp(&top1T) >= 0
	thr := false
	switch verifModeName(c) {
	case "up":
		thr = X.Cmp(&topT) > 0
	case "half_up", "half_even":
		thr = twoX.Cmp(&twoTop) >= 0
	case "half_down":
		thr = twoX.Cmp(&twoTop) > 0
	case "ceiling":
		thr = verifAnd(!neg, X.Cmp(&topT) > 0)
	case "floor":
		thr = verifAnd(neg, X.Cmp(&topT) > 0)
	}
	return verifOr(big, thr)
}

// verifIntegerRounding characterises "coeff = xc / T rounded to an integer in the context's
// mode" (T = 10^g, g > 0) on the returned coefficient; it returns (valueOK, exact).
func verifIntegerRounding(c *Context, neg bool, xc, T, coeff *BigInt) (bool, bool) {
	var Y, YpH, YmH BigInt
	Y.Mul(coeff, T)
	YpH.Add(&Y, T)
	YmH.Sub(&Y, T)
	exact := xc.Cmp(&Y) == 0
	floorOK := verifAnd(Y.Cmp(xc) <= 0, xc.Cmp(&YpH) < 0)
	ceilOK := verifAnd(YmH.Cmp(xc) < 0, xc.Cmp(&Y) <= 0)
	var ok bool
	switch verifModeName(c) {
	case "down":
		ok = floorOK
	case "up":
		ok = ceilOK
	case "ceiling":
		ok = verifOr(verifAnd(neg, floorOK), verifAnd(!neg, ceilOK))
	case "floor":
		ok = verifOr(verifAnd(neg, ceilOK), verifAnd(!neg, floorOK))
	case "half_up", "half_down", "half_even":
		var D2 BigInt
		D2.Sub(xc, &Y)
		D2.Abs(&D2)
		D2.Add(&D2, &D2)
		c2 := D2.Cmp(T)
		var tie bool
		switch verifModeName(c) {
		case "half_up":
			tie = Y.Cmp(xc) > 0
		case "half_down":
			tie = Y.Cmp(xc) < 0
		default:
			var r2 BigInt
			r2.Rem(coeff, bigTwo)
			tie = r2.Sign() == 0
		}
		ok = verifOr(c2 < 0, verifAnd(c2 == 0, tie))
	case "05up":
		var r5, cm, r6 BigInt
		r5.Rem(coeff, bigFive)
		cm.Sub(coeff, bigOne)
		r6.Rem(&cm, bigFive)
		lowStrict := verifAnd(Y.Cmp(xc) < 0, xc.Cmp(&YpH) < 0)
		highStrict := verifAnd(YmH.Cmp(xc) < 0, xc.Cmp(&Y) < 0)
		ok = verifOr(exact, verifOr(verifAnd(lowStrict, r5.Sign() != 0), verifAnd(highStrict, r6.Sign() == 0)))
	}
	return verifAnd(coeff.Sign() >= 0, ok), exact
}

// VerifQuantize: Quantize / RoundToIntegralExact / RoundToIntegralValue (param op) on finite x (C09).
func VerifQuantize() {
	c := verifCtx()
	op := verifParamStr("op")
	W := verifParamInt("W")
	var x, d Decimal
	verifFinite("x", &x)
	verifHavoc("d0", &d)
	verifFreezeDecimal(&x, "operand")
	verifFreezeContext(c, "context")
	P := int64(c.Precision)
	etiny := int64(c.MinExponent) - P + 1
	emax := int64(c.MaxExponent)

	var qe int64
	var res Condition
	var err error
	switch op {
	case "quantize":
		qe = verifNondetInt("qe", -W-4, W+4)
		res, err = c.Quantize(&d, &x, int32(qe))
	case "rti_exact":
		res, err = c.RoundToIntegralExact(&d, &x)
	default:
		res, err = c.RoundToIntegralValue(&d, &x)
	}
	verifCheckFrozen()
	verifObserveOut(op, &d, res, err)
	verifAssert(verifErrSpec(c, res, err), "C03."+op+".err")
	verifAssert(res&^(Inexact|Rounded|InvalidOperation|Subnormal|Clamped) == 0, "C09."+op+".noflow") // never Underflow/Overflow
	verifAssert(res&^(Inexact|Rounded|InvalidOperation|Subnormal|Clamped) == 0, "C02."+op+".noflow")
	verifAssert(verifIff(res.InvalidOperation(), d.Form == NaN), "C02."+op+".invalid_iff_nan")

	g := verifConcretize(qe - int64(x.Exponent))
	var T, M BigInt
	if g > 0 {
		verifPow10(&T, g)
	} else {
		verifPow10(&T, -g)
		M.Mul(&x.Coeff, &T) // exact coefficient at the finer exponent
	}

	if op == "quantize" {
		// when must the result be NaN/InvalidOperation?
		outOfRange := verifOr(qe < etiny, qe > emax)
		tooBig := false
		adjOvf := false // GDA additionally makes an adjusted-exponent overflow invalid: accepted, not demanded
		if qe <= emax && qe >= etiny {
			var top, one BigInt
			verifPow10(&top, P)
			top.Sub(&top, bigOne)
			one.Set(bigOne)
			var top2 BigInt
			verifPow10(&top2, verifConcretize(emax-qe+1))
			top2.Sub(&top2, bigOne)
			if g > 0 {
				tooBig = verifRoundsUpTo(c, x.Negative, &x.Coeff, &T, &top)
				adjOvf = verifRoundsUpTo(c, x.Negative, &x.Coeff, &T, &top2)
			} else {
				tooBig = M.Cmp(&top) > 0
				adjOvf = M.Cmp(&top2) > 0
			}
		}
		if d.Form != Finite {
			verifAssert(verifAnd(d.Form == NaN, res.InvalidOperation()), "C09.quantize.nanflag")
			verifAssert(verifOr(outOfRange, verifOr(tooBig, adjOvf)), "C09.quantize.invalid")
			verifCover("quantize.nan")
			return
		}
		verifAssert(verifNot(verifOr(outOfRange, tooBig)), "C09.quantize.mustbeinvalid")
		verifAssert(!res.InvalidOperation(), "C09.quantize.spuriousinvalid")
		verifAssert(int64(d.Exponent) == qe, "C09.quantize.exponent")
		verifAssert(verifFit(c, &d), "C07.quantize.fit")
	} else {
		verifAssert(d.Form == Finite, "C09."+op+".form")
		// integral value: exponent 0 when digits were dropped, else the operand's own (>= 0) exponent
		if g > 0 {
			verifAssert(d.Exponent == 0, "C09."+op+".exponent")
		}
	}
	if d.Form != Finite {
		return
	}
	verifAssert(d.Negative == x.Negative, "C09."+op+".sign")
	if g > 0 {
		ok, exact := verifIntegerRounding(c, x.Negative, &x.Coeff, &T, &d.Coeff)
		verifAssert(ok, "C09."+op+".value")
		if op == "rti_value" {
			verifAssert(res&(Inexact|Rounded) == 0, "C09.rti_value.flags")
		} else {
			verifAssert(verifAnd(verifIff(res.Inexact(), verifNot(exact)), verifImplies(res.Inexact(), res.Rounded())), "C09."+op+".flags")
			verifAssert(verifAnd(verifIff(res.Inexact(), verifNot(exact)), verifImplies(res.Inexact(), res.Rounded())), "C02."+op+".flags")
		}
		verifCover(op + ".drop")
	} else {
		// nothing is dropped: the coefficient is rescaled exactly to the target exponent
		verifAssert(verifAnd(int64(d.Exponent) == qe, d.Coeff.Cmp(&M) == 0), "C09."+op+".value")
		verifAssert(res&(Inexact|Rounded) == 0, "C09."+op+".flags")
		verifCover(op + ".exact")
	}
}

// VerifCeilFloor: Ceil / Floor (param op) return the smallest/largest integer not below/above x
// whenever the integer part fits the precision (C09).
func VerifCeilFloor() {
	c := verifCtx()
	op := verifParamStr("op")
	var x, d Decimal
	verifFinite("x", &x)
	verifHavoc("d0", &d)
	verifFreezeDecimal(&x, "operand")
	verifFreezeContext(c, "context")
	var res Condition
	var err error
	if op == "ceil" {
		res, err = c.Ceil(&d, &x)
	} else {
		res, err = c.Floor(&d, &x)
	}
	verifCheckFrozen()
	verifObserveOut(op, &d, res, err)
	verifAssert(verifErrSpec(c, res, err), "C03."+op+".err")
	// the claim is restricted to results that did not need rounding or exponent handling
	if res&(Inexact|Rounded|Overflow|Underflow|Subnormal|Clamped|SystemOverflow|SystemUnderflow) != 0 {
		verifCover(op + ".rounded")
		return
	}
	verifAssert(d.Form == Finite, "C09."+op+".form")
	if d.Form != Finite {
		return
	}
	// n = +-d.Coeff*10^d.Exponent must be an integer with n >= x > n-1 (ceil) / n <= x < n+1 (floor).
	// Compare at the common exponent min(d.Exponent, x.Exponent).
	verifAssert(d.Exponent >= 0, "C09."+op+".integer")
	if d.Exponent < 0 {
		return
	}
	k := verifConcretize(int64(d.Exponent) - int64(x.Exponent))
	var n, xv, one, t BigInt
	if k >= 0 {
		verifPow10(&t, k)
		n.Mul(&d.Coeff, &t)
		xv.Set(&x.Coeff)
		// one unit (1 = 10^0) at exponent x.Exponent (<= 0 here or > 0)
		if x.Exponent <= 0 {
			verifPow10(&one, -int64(x.Exponent))
		}
	} else {
		verifPow10(&t, -k)
		n.Set(&d.Coeff)
		xv.Mul(&x.Coeff, &t)
		verifPow10(&one, -int64(d.Exponent)) // d.Exponent >= 0: only 10^0 is possible
		if d.Exponent > 0 {
			one.SetInt64(0)
		}
	}
	if d.Negative {
		n.Neg(&n)
	}
	if x.Negative {
		xv.Neg(&xv)
	}
	var lim BigInt
	if x.Exponent > 0 {
		// x is an integer: result must equal x
		verifAssert(n.Cmp(&xv) == 0, "C09."+op+".value")
		return
	}
	if op == "ceil" {
		lim.Sub(&n, &one)
		verifAssert(verifAnd(n.Cmp(&xv) >= 0, xv.Cmp(&lim) > 0), "C09.ceil.value")
	} else {
		lim.Add(&n, &one)
		verifAssert(verifAnd(n.Cmp(&xv) <= 0, xv.Cmp(&lim) < 0), "C09.floor.value")
	}
}
