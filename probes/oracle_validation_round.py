# Oracle validation: transliteration of Rounder.Round + setExponent (finite x, P>=1) vs the quantum/bracket oracle of DESIGN §4.
import sys, time
from z3 import *
K=int(sys.argv[1]); mode=sys.argv[2]; fixed=(sys.argv[3]=='fixed'); W=int(sys.argv[4]) if len(sys.argv)>4 else 14
E=3*K+2*W+4
def nd_of(x):
    r=IntVal(E+1)
    for k in range(E,0,-1): r=If(x<10**k, IntVal(k), r)
    return r
def p10(k):
    r=IntVal(-1)   # out of table => -1 (checked by bound assertion)
    for i in range(E,-1,-1): r=If(k==i, IntVal(10**i), r)
    return r
SO,SU,OV,UF,IX,SN,RD,CL=1,2,4,8,16,32,64,2048
def addone(mode,y,neg,half):
    return {'down':BoolVal(False),'up':BoolVal(True),'half_up':half>=0,'half_down':half>0,
            'half_even':Or(half>0,And(half==0,y%2==1)),'ceiling':Not(neg),'floor':neg,
            '05up':y%5==0}[mode]
xc,xe,P,Emin,Emax=Ints('xc xe P Emin Emax'); xneg=Bool('xneg')
s=Solver()
s.add(xc>=0,xc<10**K,xe>=-W,xe<=W,P>=1,P<=K,Emin<=0,Emin>=-W,Emax>=P,Emax<=W)
cons=[]  # side constraints for fresh vars
fresh=[0]
def divmod_(a,b):
    fresh[0]+=1; q=Int('q%d'%fresh[0]); r=Int('r%d'%fresh[0]); cons.append(And(a==q*b+r,r>=0,r<b)); return q,r
# flags as dict of Bool
def setExponent(coeff,neg_for_round,nd,res,sumexp):
    # returns (coeff', exp', form_inf, res') ; system limits can't trigger inside window
    r=sumexp; adj=sumexp+nd-1
    zero=coeff==0
    Etiny=Emin-(P-1)
    sub=adj<Emin
    res=dict(res)
    res_SN=Or(res['SN'],And(sub,Not(zero)))
    need=And(sub,r<Etiny)
    ex=Etiny-r   # >0 when need
    T=p10(ex)
    q,m=divmod_(coeff,If(need,T,IntVal(1)))
    ndc=nd_of(coeff)
    # Modf: if exp>nd: integ=0, frac=coeff ; else integ=q, frac=m. (same numerically since coeff<T then)
    fracnz=m!=0
    half=If(2*m<T,-1,If(2*m==T,0,1))
    inc=And(fracnz,addone(mode,q,neg_for_round,half))
    integ=If(inc,q+1,q)
    res_IX=Or(res['IX'],And(need,fracnz))
    res_CL=Or(res['CL'],And(need,integ==0))
    res_RD=Or(res['RD'],need)
    coeff2=If(need,integ,coeff); r2=If(need,Etiny,r)
    over=And(Not(sub),adj>Emax)
    res_CL=Or(res_CL,And(over,zero)); r2=If(And(over,zero),Emax,r2)
    inf=And(over,Not(zero))
    res_OV=Or(res['OV'],inf); res_IX=Or(res_IX,inf)
    res_UF=Or(res['UF'],And(res_IX,res_SN))
    return coeff2,r2,inf,{'SN':res_SN,'IX':res_IX,'CL':res_CL,'RD':res_RD,'OV':res_OV,'UF':res_UF},[Implies(need,And(ex<=E,T>0))]
F=BoolVal(False)
res0={'SN':F,'IX':F,'CL':F,'RD':F,'OV':F,'UF':F}
nd=nd_of(xc); xs_nz=xc!=0
adj=xe+nd-1
early=And(xs_nz,adj<Emin)
# early branch
resE=dict(res0); resE['SN']=BoolVal(True)
negr = xneg if fixed else BoolVal(False)
cE,eE,infE,rE,bE=setExponent(xc,negr,nd,resE,xe)
# normal branch
diff=nd-P
big=diff>0
T=p10(diff)
y,m=divmod_(xc,If(big,T,IntVal(1)))
half=If(2*m<T,-1,If(2*m==T,0,1))
inc=And(big,m!=0,addone(mode,y,xneg,half))
y1=If(inc,y+1,y)
carry=And(inc,nd_of(y1)>nd_of(y))
y2=If(carry,y1/10,y1); diff2=If(carry,diff+1,diff)
resN=dict(res0); resN['RD']=big; resN['IX']=And(big,m!=0)
coeffN=If(big,y2,xc); dN=If(big,diff2,IntVal(0))
cN,eN,infN,rN,bN=setExponent(coeffN,negr,nd_of(coeffN),resN,xe+dN)
c_=If(early,cE,cN); e_=If(early,eE,eN); inf_=If(early,infE,infN)
R={k:If(early,rE[k],rN[k]) for k in res0}
s.add(cons); s.add(bE+bN); s.add(Implies(big,T>0))
# ---- oracle ----
Etiny=Emin-(P-1)
a_v=xe+nd-1
q=If(a_v-P+1>Etiny,a_v-P+1,Etiny)
t=If(q<xe,q,xe)
V=xc*p10(xe-t); U=p10(q-t)
Ms=Int('Mspec'); L=Ms*U
floorN=And(L<=V,V<L+U); ceilN=And(L-U<V,V<=L); exact=L==V
if mode=='down': rel=floorN
elif mode=='up': rel=ceilN
elif mode=='ceiling': rel=If(xneg,floorN,ceilN)
elif mode=='floor': rel=If(xneg,ceilN,floorN)
elif mode=='half_up': rel=And(2*(V-L)<U, 2*(L-V)<=U)
elif mode=='half_down': rel=And(2*(V-L)<=U, 2*(L-V)<U)
elif mode=='half_even': rel=And(2*(V-L)<=U,2*(L-V)<=U, Implies(Or(2*(V-L)==U,2*(L-V)==U), Ms%2==0))
elif mode=='05up': rel=Or(exact, And(floorN,Ms%5!=0), And(ceilN,Not(exact),(Ms-1)%5==0))
s.add(Ms>=0, rel, p10(xe-t)>0, U>0)
# expected
ovf = Ms*p10(q+W) >= p10(Emax+1+W)     # Ms*10^q >= 10^(Emax+1), shifted by W to keep exponents >=0
s.add(p10(q+W)>0,p10(Emax+1+W)>0)
# d value equals Ms*10^q : c_*10^e_ == Ms*10^q
t2=If(e_<q,e_,q)
valeq = c_*p10(e_-t2) == Ms*p10(q-t2)
ok_val = If(xc==0, And(Not(inf_),c_==0), If(ovf, inf_, And(Not(inf_),valeq, p10(e_-t2)>0,p10(q-t2)>0)))
# flags (C02)
inexact_true = If(ovf, BoolVal(True), Not(exact))
sub_true = And(xc!=0, a_v<Emin)
ok_flags = And(R['IX']==inexact_true, R['SN']==sub_true, R['UF']==And(sub_true,inexact_true), R['OV']==And(xc!=0,ovf), Implies(And(R['IX'],Not(inf_)),R['RD']))
# fit (C07)
ok_fit = Implies(Not(inf_), And(nd_of(c_)<=P, e_+nd_of(c_)-1<=Emax, Implies(c_!=0, e_>=Etiny), c_>=0))
which=sys.argv[5] if len(sys.argv)>5 else 'val'
goal={'val':ok_val,'flags':ok_flags,'fit':ok_fit}[which]
s.add(Not(goal))
tm=time.time(); r=s.check(); print(K,mode,'fixed' if fixed else 'orig',which,r,round(time.time()-tm,2))
if r==sat:
    mdl=s.model(); print(dict(zip('xc xe xneg P Emin Emax c e inf Ms q'.split(),[mdl.eval(v) for v in [xc,xe,xneg,P,Emin,Emax,c_,e_,inf_,Ms,q]])))
