//go:build verif

package apd

import "strconv"

// VerifCtxParse: context-aware parsing (Context.SetString / Context.NewFromString) returns the
// value of the numeric string rounded once to the context (C01, C02, C07). The string is
// assembled from symbolic parts - sign, ni integer digits and nf fraction digits (each digit
// symbolic, leading zeros included), and an exponent - so its exact value is known to the oracle.
func VerifCtxParse() {
	c := verifCtx()
	ni := int(verifParamInt("ni"))
	nf := int(verifParamInt("nf"))
	W := verifParamInt("W")
	neg := verifNondetBool("neg")
	var b []byte
	if neg {
		b = append(b, '-')
	}
	var N, ten BigInt
	ten.SetInt64(10)
	digits := verifNondetString("dig", ni+nf, '0', '9')
	for i := 0; i < ni+nf; i++ {
		if i == ni {
			b = append(b, '.')
		}
		b = append(b, digits[i])
		var dv BigInt
		dv.SetInt64(int64(digits[i] - '0'))
		N.Mul(&N, &ten)
		N.Add(&N, &dv)
	}
	if ni+nf == ni && verifParamInt("trailingpoint") == 1 {
		b = append(b, '.')
	}
	exp := verifNondetInt("exp", -W, W)
	if verifParamInt("withexp") == 1 {
		b = append(b, 'E')
		if exp >= 0 && verifNondetBool("plus") {
			b = append(b, '+')
		}
		b = strconv.AppendInt(b, exp, 10)
	} else {
		exp = 0
	}
	s := string(b)
	var d Decimal
	verifHavoc("d0", &d)
	verifFreezeContext(c, "context")
	var ret *Decimal
	var res Condition
	var err error
	if verifParamStr("via") == "new" {
		ret, res, err = c.NewFromString(s)
	} else {
		ret, res, err = c.SetString(&d, s)
	}
	verifCheckFrozen()
	verifObserveStr("s", s)
	if res&(SystemOverflow|SystemUnderflow) != 0 {
		verifAssert(false, "C02.ctxparse.nosystem") // the window keeps every value far from the package limits
		return
	}
	verifAssert(ret != nil, "C01.ctxparse.returns_value")
	if ret == nil {
		return
	}
	verifObserveOut("ctxparse", ret, res, err)
	val, flg, fit := verifSpecResult(c, neg, &N, exp-int64(nf), ret, res)
	verifAssert(val, "C01.ctxparse.value")
	verifAssert(flg, "C02.ctxparse.flags")
	verifAssert(fit, "C07.ctxparse.fit")
	verifAssert(verifErrSpec(c, res, err), "C03.ctxparse.err")
	if res.Inexact() {
		verifCover("ctxparse.rounded")
	}
	if ret.Form == Infinite {
		verifCover("ctxparse.overflow")
	}
}
