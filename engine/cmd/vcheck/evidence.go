package main

import (
	"encoding/json"
	"fmt"
	"os"
	"path/filepath"
	"sort"

	"verif/engine/sym"
)

type Evidence struct {
	prop, tier       string
	seed             int64
	def              *CheckDef
	States           int
	Transitions      int64
	TracesValidated  int
	Instances        []map[string]interface{}
	Samples          []interface{}
	Covers           map[string]int
	AssertsOK        map[string]int
	Known            map[string]int
	Cuts             map[string]int
	Functions        []string
	Notes            []string
	Undecided        []string
	KnownReproduced  []string
	ViolationSamples []interface{}
	Violations       int
	LoadSecs         float64
	wall             float64
	Ends             map[string]int
}

func newEvidence(prop, tier string, seed int64, def *CheckDef) *Evidence {
	return &Evidence{prop: prop, tier: tier, seed: seed, def: def, Covers: map[string]int{}, AssertsOK: map[string]int{}, Known: map[string]int{}, Cuts: map[string]int{}, Ends: map[string]int{}}
}

func (e *Evidence) addInstance(o instOut) {
	hr := o.hr
	e.States += hr.Paths
	e.Transitions += hr.Instr
	for k, v := range hr.Covers {
		e.Covers[k] += v
	}
	for k, v := range hr.AssertsOK {
		e.AssertsOK[k] += v
	}
	for k, v := range hr.Known {
		e.Known[k] += v
	}
	for k, v := range hr.Cuts {
		e.Cuts[k] += v
	}
	for k, v := range hr.EndCounts {
		e.Ends[k] += v
	}
	e.Instances = append(e.Instances, map[string]interface{}{
		"harness": o.inst.Harness, "params": o.inst.Params, "paths": hr.Paths, "path_ends": hr.EndCounts,
		"ssa_instructions": hr.Instr, "max_decisions": hr.MaxDec, "seconds": round1(o.secs),
	})
	for i, pm := range hr.PathModels {
		if i >= 2 || len(e.Samples) >= 12 {
			break
		}
		e.Samples = append(e.Samples, map[string]interface{}{"harness": o.inst.Harness, "params": o.inst.Params, "path_model_inputs": pm.Inputs, "predicted_outputs": pm.Observed})
	}
}

func round1(f float64) float64 { return float64(int(f*10+0.5)) / 10 }

func (e *Evidence) finish(wall float64) { e.wall = wall }

func (e *Evidence) write() {
	if len(e.Samples) == 0 {
		for i, in := range e.Instances {
			if i >= 3 {
				break
			}
			e.Samples = append(e.Samples, in)
		}
	}
	if len(e.Samples) == 0 {
		e.Samples = append(e.Samples, "no path completed")
	}
	excluded := []string{}
	for k := range e.Known {
		excluded = append(excluded, k)
	}
	sort.Strings(excluded)
	states := e.States
	if states < 1 {
		states = 1
	}
	trans := e.Transitions
	if trans < 1 {
		trans = 1
	}
	cov := map[string]interface{}{
		"states":                        states,
		"transitions":                   trans,
		"traces_validated_against_impl": e.TracesValidated,
		"samples":                       e.Samples,
		"explanation": "states = feasible symbolic paths of the harness entry points explored to the end (each path condition decided by the solver); " +
			"transitions = go/ssa instructions executed symbolically; traces_validated_against_impl = per-path solver models re-run natively on the real build with identical observable outputs",
		"technique":                 "bounded symbolic execution of /repo's go/ssa form into SMT-LIB2 (z3), per-path queries; unsat of the negated assertion on every feasible path = holds within the bounds",
		"functions_encoded":         e.Functions,
		"stubs":                     e.def.Stubs,
		"bounds":                    e.def.Bounds[e.tier],
		"outside_the_bounds":        e.def.Outside,
		"instances":                 e.Instances,
		"path_ends":                 e.Ends,
		"assertions_discharged":     e.AssertsOK,
		"cover_labels_reached":      e.Covers,
		"required_cover_labels":     e.def.RequireCovers,
		"cuts":                      e.Cuts,
		"excluded_regions":          excluded,
		"excluded_region_paths":     e.Known,
		"known_findings_reproduced": e.KnownReproduced,
		"undecided":                 e.Undecided,
		"notes":                     e.Notes,
		"violation_samples":         e.ViolationSamples,
		"queries": map[string]int64{"issued": sym.GStats.Queries, "unsat": sym.GStats.UnsatN, "sat": sym.GStats.SatN,
			"unknown": sym.GStats.UnknownN, "solver_errors": sym.GStats.Errors},
		"solver":        solverBin(),
		"solver_time_s": round1(float64(sym.GStats.NanosInSolver) / 1e9),
		"load_s":        round1(e.LoadSecs),
	}
	doc := map[string]interface{}{
		"property_id": e.prop,
		"tier":        e.tier,
		"seed":        e.seed,
		"level":       "model_checking",
		"coverage":    cov,
		"assumptions": e.def.Assumptions,
		"wall_s":      round1(e.wall),
		"violations":  e.Violations,
	}
	writeJSON(filepath.Join(verifDir, "evidence", e.prop+".json"), doc)
}

func writeJSON(path string, doc interface{}) {
	os.MkdirAll(filepath.Dir(path), 0o755)
	b, _ := json.MarshalIndent(doc, "", " ")
	if err := os.WriteFile(path, append(b, '\n'), 0o644); err != nil {
		fmt.Println("cannot write evidence:", err)
	}
}

func writeEvidenceFailure(prop, tier string, seed int64, def *CheckDef, why string, wall float64) {
	doc := map[string]interface{}{
		"property_id": prop, "tier": tier, "seed": seed, "level": "other",
		"coverage":    map[string]interface{}{"explanation": "the check could not run: " + why, "samples": []string{why}},
		"assumptions": def.Assumptions, "wall_s": round1(wall), "violations": 0,
	}
	writeJSON(filepath.Join(verifDir, "evidence", prop+".json"), doc)
}
