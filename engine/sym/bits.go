package sym

import (
	"math/big"

	"golang.org/x/tools/go/ssa"
)

// bitsStub gives math/bits functions their documented bit-vector meaning.
func bitsStub(name string) interceptFn {
	bv64 := func(v Value) *Term { return toBV(v.(IntV), 64, false) }
	switch name {
	case "math/bits.Add64":
		return func(ex *Exec, a []Value, c *ssa.CallCommon) Value {
			x, y, ci := BVZeroExt(1, bv64(a[0])), BVZeroExt(1, bv64(a[1])), BVZeroExt(1, bv64(a[2]))
			s := BVBin("bvadd", BVBin("bvadd", x, y), ci)
			return TupleV{bvResult(BVExtract(63, 0, s)), bvResult(BVZeroExt(63, BVExtract(64, 64, s)))}
		}
	case "math/bits.Sub64":
		return func(ex *Exec, a []Value, c *ssa.CallCommon) Value {
			x, y, bi := BVZeroExt(1, bv64(a[0])), BVZeroExt(1, bv64(a[1])), BVZeroExt(1, bv64(a[2]))
			s := BVBin("bvsub", BVBin("bvsub", x, y), bi)
			return TupleV{bvResult(BVExtract(63, 0, s)), bvResult(BVZeroExt(63, BVExtract(64, 64, s)))}
		}
	case "math/bits.Mul64":
		return func(ex *Exec, a []Value, c *ssa.CallCommon) Value {
			x, y := BVZeroExt(64, bv64(a[0])), BVZeroExt(64, bv64(a[1]))
			p := BVBin("bvmul", x, y)
			return TupleV{bvResult(BVExtract(127, 64, p)), bvResult(BVExtract(63, 0, p))}
		}
	case "math/bits.Len", "math/bits.Len64":
		return func(ex *Exec, a []Value, c *ssa.CallCommon) Value {
			x := bv64(a[0])
			if x.IsConst() {
				return ConstInt(int64(x.Val.BitLen()))
			}
			// fork on the bit length
			for n := 0; n < 64; n++ {
				lim := BVConst(64, new(big.Int).Lsh(bigOneI, uint(n)))
				if ex.decide(BVCmp("bvult", x, lim)) {
					return ConstInt(int64(n))
				}
			}
			return ConstInt(64)
		}
	}
	return nil
}

func bvResult(t *Term) IntV {
	if t.IsConst() {
		return ConstBig(t.Val)
	}
	return IntV{T: t}
}
