//go:build verif

package apd

// VerifRound: Context.Round on an arbitrary finite operand (C01, C02, C03, C06, C07).
func VerifRound() {
	c := verifCtx()
	var x, d Decimal
	verifFinite("x", &x)
	verifHavoc("d0", &d)
	verifFreezeDecimal(&x, "operand")
	verifFreezeContext(c, "context")

	res, err := c.Round(&d, &x)

	verifCheckFrozen()
	val, flg, fit := verifSpecResult(c, x.Negative, &x.Coeff, int64(x.Exponent), &d, res)
	verifAssert(val, "C01.round.value")
	verifAssert(flg, "C02.round.flags")
	verifAssert(fit, "C07.round.fit")
	verifAssert(verifErrSpec(c, res, err), "C03.round.err")
	if verifParamInt("regime") == 0 {
		verifAssert(res&(SystemOverflow|SystemUnderflow) == 0, "C02.round.nosystem")
	}
	verifObserveOut("round", &d, res, err)
	if res.Subnormal() {
		verifCover("round.subnormal")
	}
	if res.Overflow() {
		verifCover("round.overflow")
	}
	if res.Inexact() {
		verifCover("round.inexact")
	}
}

// verifObserveOut records the observable outputs for per-path translation validation.
func verifObserveOut(tag string, d *Decimal, res Condition, err error) {
	verifObserveInt(tag+".form", int64(d.Form))
	verifObserveBool(tag+".neg", d.Negative)
	verifObserveInt(tag+".res", int64(res))
	verifObserveBool(tag+".err", err != nil)
	if d.Form == Finite {
		verifObserveInt(tag+".exp", int64(d.Exponent))
		verifObserveBig(tag+".coeff", &d.Coeff)
	}
}
