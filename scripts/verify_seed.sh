#!/bin/bash
# verify_seed.sh <id> <dir-with-patch.diff,demo_test.go>: confirms, in a scratch worktree of
# /repo HEAD, that the seeded change compiles, passes the existing suite, and that the
# demonstration fails with it and passes without it.
export GOFLAGS=-mod=mod GOPROXY=off GOSUMDB=off GOTOOLCHAIN=local
id=$1; dir=$2
wt=$(mktemp -d /tmp/vseed.XXXXXX); rmdir $wt
git -C /repo worktree add -q $wt HEAD || exit 2
trap "git -C /repo worktree remove --force $wt" EXIT
cd $wt
git apply $dir/patch.diff || { echo "$id: PATCH-DOES-NOT-APPLY"; exit 1; }
go build ./... || { echo "$id: DOES-NOT-COMPILE"; exit 1; }
if go test -vet=off -count=1 ./... > /tmp/vseed_$id.log 2>&1; then suite=pass; else suite=FAIL; fi
cp $dir/demo_test.go zz_seed_demo_test.go
if timeout 120 go test -vet=off -count=1 -run TestSeededDemo . > /tmp/vseed_demo_with_$id.log 2>&1; then with=pass; else with=fail; fi
git checkout -q -- . 
if timeout 120 go test -vet=off -count=1 -run TestSeededDemo . > /tmp/vseed_demo_without_$id.log 2>&1; then without=pass; else without=fail; fi
echo "$id: suite=$suite demo_with_change=$with demo_without_change=$without"
