//go:build verif

package apd

// VerifErrDecimal: every ErrDecimal wrapper performs exactly the Context operation of the
// same name on the same arguments, accumulates its flags, and once an error has occurred
// leaves every later destination untouched (C03). The wrapper's outcome is compared with a
// direct call of the Context method on equal operands (self-composition).
func VerifErrDecimal() {
	c := verifCtx() // traps symbolic
	op := verifParamStr("op")
	var x, y Decimal
	verifOperands(op, &x, &y)
	switch op {
	case "sqrt", "exp", "ln", "log10":
		// only the prologues of the iterative functions can be executed: special operands
		verifAssume(x.Form != Finite || x.Coeff.Sign() == 0)
	case "pow":
		verifAssume(verifIsNaN(&x) || verifIsNaN(&y) || x.Form == Infinite && y.Form == Finite || x.Coeff.Sign() == 0 && y.Form == Finite && x.Form == Finite || y.Coeff.Sign() == 0 && y.Form == Finite && x.Form == Finite)
	}
	aux := int32(0)
	if op == "quantize" {
		aux = int32(verifNondetInt("qe", -4, 4))
	}
	// arbitrary accumulated state: earlier flags, possibly an earlier error
	ed := MakeErrDecimal(c)
	ed.Flags = Condition(verifNondetInt("flags0", 0, 0xFFF))
	hadErr := verifNondetBool("haderr")
	if hadErr {
		ed.err = errZeroPrecision()
	}
	flags0 := ed.Flags
	pendingErr := ed.Err() != nil // an earlier error, or earlier flags that hit the trap set
	var d, d0, dref Decimal
	verifHavoc("d0", &d)
	d0.Set(&d)
	d0form := d.Form
	var ret *Decimal
	switch op {
	case "add":
		ret = ed.Add(&d, &x, &y)
	case "sub":
		ret = ed.Sub(&d, &x, &y)
	case "mul":
		ret = ed.Mul(&d, &x, &y)
	case "quo":
		ret = ed.Quo(&d, &x, &y)
	case "quoint":
		ret = ed.QuoInteger(&d, &x, &y)
	case "rem":
		ret = ed.Rem(&d, &x, &y)
	case "abs":
		ret = ed.Abs(&d, &x)
	case "neg":
		ret = ed.Neg(&d, &x)
	case "round":
		ret = ed.Round(&d, &x)
	case "reduce":
		_, ret = ed.Reduce(&d, &x)
	case "quantize":
		ret = ed.Quantize(&d, &x, aux)
	case "rti_value":
		ret = ed.RoundToIntegralValue(&d, &x)
	case "rti_exact":
		ret = ed.RoundToIntegralExact(&d, &x)
	case "ceil":
		ret = ed.Ceil(&d, &x)
	case "floor":
		ret = ed.Floor(&d, &x)
	case "sqrt":
		ret = ed.Sqrt(&d, &x)
	case "exp":
		ret = ed.Exp(&d, &x)
	case "ln":
		ret = ed.Ln(&d, &x)
	case "log10":
		ret = ed.Log10(&d, &x)
	case "pow":
		ret = ed.Pow(&d, &x, &y)
	}
	tag := "C03.ed." + op
	verifAssert(ret == &d, tag+".returns_d")
	if pendingErr {
		// skipped: destination and flags untouched, error kept
		verifAssert(verifAnd(d.Form == d0form, verifSameRaw(&d, &d0)), tag+".skipped_dest")
		verifAssert(ed.Flags == flags0, tag+".skipped_flags")
		verifAssert(ed.Err() != nil, tag+".sticky_err")
		verifCover("ed.skipped")
		return
	}
	_, res, err := verifApply(op, c, &dref, &x, &y, aux)
	if err != nil && res == 0 {
		// an error that carries no condition (zero precision, exponent gap): no value is
		// delivered by the Context method, nothing to compare
		verifCover("ed.flagless_error")
	} else {
		verifAssert(verifSameObservable(&d, &dref), tag+".same_value")
	}
	verifAssert(ed.Flags == flags0|res, tag+".accumulates")
	verifAssert(verifImplies(err != nil, ed.Err() != nil), tag+".err_kept")
	verifCover("ed.performed")
}

func errZeroPrecision() error { return verifErr{} }

type verifErr struct{}

func (verifErr) Error() string { return "verif: earlier error" }

// verifSameRaw compares all fields (used where "untouched" is the claim).
func verifSameRaw(a, b *Decimal) bool {
	return verifAnd(a.Form == b.Form, verifAnd(a.Negative == b.Negative, verifAnd(a.Exponent == b.Exponent, a.Coeff.Cmp(&b.Coeff) == 0)))
}
