//go:build verif

package apd

// VerifNumDigitsReal: the real table.go NumDigits (instance param realNumDigits=1 disables the
// engine's digit-count stub) on every integer b with lo <= b <= hi (C19, C04).
func VerifNumDigitsReal() {
	var b BigInt
	verifNondetBig("b", &b, verifParamStr("lo"), verifParamStr("hi"))
	verifFreezeBig(&b, "operand")
	n := NumDigits(&b)
	verifCheckFrozen()
	verifObserveInt("n", n)
	var a, lo, hi BigInt
	a.Abs(&b)
	ok := n >= 1
	if ok {
		verifPow10(&hi, n)
		if n > 1 {
			verifPow10(&lo, n-1)
		}
		// 10^(n-1) <= |b| < 10^n, with n = 1 for zero
		ok = verifAnd(lo.Cmp(&a) <= 0, a.Cmp(&hi) < 0)
	}
	verifAssert(ok, "C19.numdigits.value")
	if b.Sign() < 0 {
		verifCover("numdigits.negative")
	}
	if n > 39 {
		verifCover("numdigits.beyondtable")
	}
}

// VerifTableExp10: tableExp10(k) == 10^k for every k in [0, kmax], table and fallback (C19/C06).
func VerifTableExp10() {
	k := verifConcretize(verifNondetInt("k", 0, verifParamInt("kmax")))
	var tmp, want BigInt
	e := tableExp10(k, &tmp)
	verifPow10(&want, k)
	verifAssert(e.Cmp(&want) == 0, "C19.tableexp10.value")
	if k > powerTenTableSize {
		verifCover("tableexp10.fallback")
	}
}

// VerifReduce: Decimal.Reduce (op=dec) and Context.Reduce (op=ctx) (C19, plus C01 for Precision 0).
func VerifReduce() {
	op := verifParamStr("op")
	var x, d Decimal
	verifFinite("x", &x)
	verifHavoc("d0", &d)
	verifFreezeDecimal(&x, "operand")
	// number of trailing zeros of the operand (oracle side: by forking on x mod 10^k)
	var tz int64
	if x.Coeff.Sign() != 0 {
		K := verifParamInt("K")
		for tz < K {
			var t, r BigInt
			verifPow10(&t, tz+1)
			r.Rem(&x.Coeff, &t)
			if r.Sign() != 0 {
				break
			}
			tz++
		}
	}
	if op == "dec" {
		_, n := d.Reduce(&x)
		verifCheckFrozen()
		verifObserveInt("n", int64(n))
		verifObserveInt("form", int64(d.Form))
		verifAssert(d.Form == Finite, "C19.reduce.form")
		if d.Form != Finite {
			return
		}
		verifObserveInt("exp", int64(d.Exponent))
		verifObserveBig("coeff", &d.Coeff)
		if x.Coeff.Sign() == 0 {
			verifAssert(verifAnd(d.Coeff.Sign() == 0, d.Exponent == 0), "C19.reduce.zero")
			verifAssert(n == 0, "C19.reduce.zerocount")
			verifCover("reduce.zero")
			return
		}
		verifAssert(int64(n) == tz, "C19.reduce.count")
		verifReduced(&x, &d, int64(n), "C19.reduce")
		verifAssert(d.Negative == x.Negative, "C19.reduce.sign")
		if n > 0 {
			verifCover("reduce.stripped")
		}
		return
	}
	c := verifCtx()
	verifFreezeContext(c, "context")
	n, res, err := c.Reduce(&d, &x)
	verifCheckFrozen()
	verifObserveInt("n", int64(n))
	verifObserveOut("ctxreduce", &d, res, err)
	verifAssert(verifErrSpec(c, res, err), "C03.reduce.err")
	// numerically equal to the operand after context rounding ...
	neg := x.Negative
	val, flg, fit := verifSpecResult(c, neg, &x.Coeff, int64(x.Exponent), &d, res)
	verifAssert(val, "C19.ctxreduce.value")
	verifAssert(flg, "C02.reduce.flags")
	verifAssert(fit, "C07.reduce.fit")
	if d.Form != Finite {
		return
	}
	// ... and no trailing zero in the returned coefficient (zero: exponent 0, sign kept)
	if d.Coeff.Sign() == 0 {
		if x.Coeff.Sign() == 0 {
			verifAssert(verifAnd(d.Exponent == 0, d.Negative == neg), "C19.ctxreduce.zero")
		}
		return
	}
	var r BigInt
	r.Rem(&d.Coeff, bigTen)
	verifAssert(r.Sign() != 0, "C19.ctxreduce.notrailing")
	if res&(Rounded|Inexact|Subnormal) == 0 {
		verifAssert(int64(n) == tz, "C19.ctxreduce.count")
	}
}

// verifReduced: d == x numerically with d.Exponent = x.Exponent + n and no trailing zero.
func verifReduced(x, d *Decimal, n int64, tag string) {
	var t, v, r BigInt
	verifPow10(&t, n)
	v.Mul(&d.Coeff, &t)
	verifAssert(verifAnd(v.Cmp(&x.Coeff) == 0, int64(d.Exponent) == int64(x.Exponent)+n), tag+".value")
	r.Rem(&d.Coeff, bigTen)
	verifAssert(r.Sign() != 0, tag+".notrailing")
}
