//go:build verif

package apd

// Harness primitives. The symbolic engine (/verif/engine) intercepts every
// function in this file by name; the bodies below are the *native* meaning,
// used when a solver model is replayed against the real, natively compiled
// code (go test -overlay ... -run TestVerifReplay).

import (
	"fmt"
	"math"
	"math/big"
	"strconv"
)

type verifCaseT struct {
	Harness string            `json:"harness"`
	Params  map[string]string `json:"params"`
	Inputs  map[string]string `json:"inputs"`
}

type verifResultT struct {
	Ran       bool              `json:"ran"`
	Failed    []string          `json:"failed"`
	Covers    []string          `json:"covers"`
	Known     []string          `json:"known"`
	Observed  map[string]string `json:"observed"`
	Panic     string            `json:"panic"`
	AssumeOut bool              `json:"assume_out"`
	Hang      bool              `json:"hang"`
}

var (
	verifCur    *verifCaseT
	verifRes    *verifResultT
	verifFrozen []verifFrozenT
)

type verifFrozenT struct {
	role  string
	dec   *Decimal
	ctx   *Context
	big   *BigInt
	dsnap Decimal
	csnap Context
	bsnap BigInt
	heap  []big.Word
}

type verifAssumeFail struct{}

func verifParamInt(name string) int64 {
	v, err := strconv.ParseInt(verifCur.Params[name], 10, 64)
	if err != nil {
		panic(fmt.Sprintf("verif: missing/bad int param %q", name))
	}
	return v
}

// verifParamIntOr: an optional integer parameter.
func verifParamIntOr(name string, def int64) int64 {
	if _, ok := verifCur.Params[name]; !ok {
		return def
	}
	return verifParamInt(name)
}

func verifParamStr(name string) string {
	v, ok := verifCur.Params[name]
	if !ok {
		panic(fmt.Sprintf("verif: missing param %q", name))
	}
	return v
}

func verifInput(name string) (*big.Int, bool) {
	s, ok := verifCur.Inputs[name]
	if !ok {
		return nil, false
	}
	v, ok := new(big.Int).SetString(s, 10)
	return v, ok
}

func verifNondetInt(name string, lo, hi int64) int64 {
	v, ok := verifInput(name)
	if !ok {
		return lo
	}
	if !v.IsInt64() || v.Int64() < lo || v.Int64() > hi {
		panic(verifAssumeFail{})
	}
	return v.Int64()
}

func verifNondetByte(name string, lo, hi byte) byte {
	return byte(verifNondetInt(name, int64(lo), int64(hi)))
}

func verifNondetString(name string, n int, lo, hi byte) string {
	b := make([]byte, n)
	for i := range b {
		b[i] = verifNondetByte(fmt.Sprintf("%s_%d", name, i), lo, hi)
	}
	return string(b)
}

func verifNondetBool(name string) bool {
	v, ok := verifInput(name)
	return ok && v.Sign() != 0
}

func verifNondetBits32(name string) uint32 {
	v, ok := verifInput(name)
	if !ok {
		return 0
	}
	return uint32(v.Uint64())
}

func verifNondetBits64(name string) uint64 {
	v, ok := verifInput(name)
	if !ok {
		return 0
	}
	return v.Uint64()
}

func verifNondetBig(name string, dst *BigInt, lo, hi string) {
	l, _ := new(big.Int).SetString(lo, 10)
	h, _ := new(big.Int).SetString(hi, 10)
	v, ok := verifInput(name)
	if !ok {
		v = l
	}
	if v.Cmp(l) < 0 || v.Cmp(h) > 0 {
		panic(verifAssumeFail{})
	}
	dst.SetMathBigInt(v)
}

func verifNondetCoeff(name string, dst *BigInt, maxDigits int) {
	h := new(big.Int).Exp(big.NewInt(10), big.NewInt(int64(maxDigits)), nil)
	v, ok := verifInput(name)
	if !ok {
		v = new(big.Int)
	}
	if v.Sign() < 0 || v.Cmp(h) >= 0 {
		panic(verifAssumeFail{})
	}
	dst.SetMathBigInt(v)
}

func verifAssume(ok bool) {
	if !ok {
		panic(verifAssumeFail{})
	}
}

func verifAssert(ok bool, id string) {
	if !ok {
		verifRes.Failed = append(verifRes.Failed, id)
	}
}

func verifCover(label string) { verifRes.Covers = append(verifRes.Covers, label) }

func verifConcretize(x int64) int64 { return x }

// verifConcretizeBig makes the engine enumerate the feasible values of *b (one path per
// value), so that everything computed from it is linear; natively a no-op.
func verifConcretizeBig(b *BigInt) {}

// verifKnownRegion marks a region of the input space delimited by a listed
// known finding; when the finding is listed as open the engine excludes the
// region, natively the path is just recorded.
func verifKnownRegion(id string, in bool) {
	if in {
		verifRes.Known = append(verifRes.Known, id)
	}
}

func verifEnabled(id string) bool { return true }
func verifSymbolic() bool         { return false }

func verifObserveInt(name string, v int64) { verifRes.Observed[name] = strconv.FormatInt(v, 10) }
func verifObserveBool(name string, v bool) { verifRes.Observed[name] = strconv.FormatBool(v) }
func verifObserveBig(name string, v *BigInt) {
	verifRes.Observed[name] = v.MathBigInt().String()
}
func verifObserveStr(name string, v string) { verifRes.Observed[name] = v }
func verifObserveFloat(name string, f float64) {
	verifRes.Observed[name] = strconv.FormatUint(math.Float64bits(f), 10)
}

// verifMakeFloat: the float64 (-1)^neg * m * 2^k for a 53-bit significand 2^52 <= m < 2^53.
func verifMakeFloat(neg bool, m *BigInt, k int64) float64 {
	f := math.Ldexp(float64(m.Int64()), int(k))
	if neg {
		f = -f
	}
	return f
}

// verifFloatSame: identical bit patterns.
func verifFloatSame(f, g float64) bool { return math.Float64bits(f) == math.Float64bits(g) }

// verifFloatNearest: f is the float64 nearest (IEEE-754 round to nearest, ties to even) to
// (-1)^neg * coeff * 10^exp, with the sign of a zero taken from neg. The engine states this
// over exact integers (significand and binary exponent of f); natively math/big does.
func verifFloatNearest(f float64, neg bool, coeff *BigInt, exp int64) bool {
	r := new(big.Rat).SetInt(coeff.MathBigInt())
	p := new(big.Int).Exp(big.NewInt(10), big.NewInt(exp), nil)
	if exp < 0 {
		p.Exp(big.NewInt(10), big.NewInt(-exp), nil)
		r.Quo(r, new(big.Rat).SetInt(p))
	} else {
		r.Mul(r, new(big.Rat).SetInt(p))
	}
	want, _ := r.Float64()
	if neg {
		want = -want
	}
	return math.Float64bits(f) == math.Float64bits(want)
}

func verifSnapBig(b *BigInt) (BigInt, []big.Word) {
	s := *b
	var heap []big.Word
	if b._inner != nil && b._inner != negSentinel {
		heap = append([]big.Word{}, b._inner.Bits()...)
		if b._inner.Sign() < 0 {
			heap = append(heap, ^big.Word(0))
		}
	}
	return s, heap
}

func verifSameBig(b *BigInt, s BigInt, heap []big.Word) bool {
	if b._inner != s._inner || b._inline != s._inline {
		return false
	}
	_, h2 := verifSnapBig(b)
	if len(h2) != len(heap) {
		return false
	}
	for i := range heap {
		if heap[i] != h2[i] {
			return false
		}
	}
	return true
}

// verifFreezeDecimal declares that *d must not be written from here on
// (C06/C18). Symbolically every store into the object is trapped; natively a
// bit-for-bit snapshot is compared by verifCheckFrozen.
func verifFreezeDecimal(d *Decimal, role string) {
	f := verifFrozenT{role: role, dec: d, dsnap: *d}
	f.bsnap, f.heap = verifSnapBig(&d.Coeff)
	verifFrozen = append(verifFrozen, f)
}

func verifFreezeContext(c *Context, role string) {
	verifFrozen = append(verifFrozen, verifFrozenT{role: role, ctx: c, csnap: *c})
}

func verifFreezeBig(b *BigInt, role string) {
	f := verifFrozenT{role: role, big: b}
	f.bsnap, f.heap = verifSnapBig(b)
	verifFrozen = append(verifFrozen, f)
}

func verifCheckFrozen() {
	for _, f := range verifFrozen {
		ok := true
		switch {
		case f.dec != nil:
			ok = f.dec.Form == f.dsnap.Form && f.dec.Negative == f.dsnap.Negative && f.dec.Exponent == f.dsnap.Exponent &&
				verifSameBig(&f.dec.Coeff, f.bsnap, f.heap)
		case f.ctx != nil:
			ok = *f.ctx == f.csnap
		case f.big != nil:
			ok = verifSameBig(f.big, f.bsnap, f.heap)
		}
		if !ok {
			verifRes.Failed = append(verifRes.Failed, "W.write."+f.role)
		}
	}
}

// Branch-free boolean connectives (symbolically: term constructors, so that
// oracles do not multiply paths).
func verifAnd(a, b bool) bool     { return a && b }
func verifOr(a, b bool) bool      { return a || b }
func verifNot(a bool) bool        { return !a }
func verifImplies(a, b bool) bool { return !a || b }
func verifIff(a, b bool) bool     { return a == b }
func verifIteInt(c bool, a, b int64) int64 {
	if c {
		return a
	}
	return b
}

// verifPow10 sets dst = 10^k (k >= 0) without using apd's tables.
func verifPow10(dst *BigInt, k int64) *BigInt {
	if k < 0 {
		panic("verifPow10: negative exponent")
	}
	v := new(big.Int).Exp(big.NewInt(10), big.NewInt(k), nil)
	dst.SetMathBigInt(v)
	return dst
}

// verifNumDigits is an oracle-side digit count that does not use apd's tables.
func verifNumDigits(b *BigInt) int64 {
	s := new(big.Int).Abs(b.MathBigInt()).String()
	return int64(len(s))
}

// verifDigits returns the decimal digits of |b| (oracle side; does not use apd's Append).
func verifDigits(b *BigInt) []byte {
	return []byte(new(big.Int).Abs(b.MathBigInt()).String())
}

// ---------- Level B (real BigInt representation) primitives ----------

type verifBigSnapT struct {
	v    *big.Int
	raw  BigInt
	heap []big.Word
}

var verifBigSnaps []verifBigSnapT

// verifBigAny fills b with an arbitrary VALID representation: inline non-negative (_inner nil),
// inline negative (_inner == negSentinel, words not all zero) or heap-backed with up to
// maxHeap words (normalised), inline words arbitrary in every case.
func verifBigAny(name string, b *BigInt, maxHeap int) {
	kind := verifNondetInt(name+"_kind", 0, 2)
	b._inline[0] = big.Word(verifNondetBits64(name + "_w0"))
	b._inline[1] = big.Word(verifNondetBits64(name + "_w1"))
	switch kind {
	case 0:
		b._inner = nil
	case 1:
		b._inner = negSentinel
		verifAssume(b._inline[0] != 0 || b._inline[1] != 0)
	case 2:
		n := int(verifNondetInt(name+"_hn", 0, int64(maxHeap)))
		words := make([]big.Word, n, n+1)
		for i := range words {
			words[i] = big.Word(verifNondetBits64(fmt.Sprintf("%s_h%d", name, i)))
		}
		if n > 0 {
			verifAssume(words[n-1] != 0)
		}
		h := new(big.Int).SetBits(words)
		if n > 0 && verifNondetBool(name+"_hneg") {
			h.Neg(h)
		}
		b._inner = h
	}
}

func verifBigSnap(b *BigInt) int {
	raw, heap := verifSnapBig(b)
	verifBigSnaps = append(verifBigSnaps, verifBigSnapT{v: b.MathBigInt(), raw: raw, heap: heap})
	return len(verifBigSnaps) - 1
}

func verifSnapVal(i int) *big.Int {
	if i < 0 {
		return new(big.Int)
	}
	return verifBigSnaps[i].v
}

// verifBigIs: *z == op(snapshot sx, snapshot sy) with math/big's semantics.
func verifBigIs(z *BigInt, op string, sx, sy int) bool {
	x, y := verifSnapVal(sx), verifSnapVal(sy)
	w := new(big.Int)
	switch op {
	case "set":
		w.Set(x)
	case "abs":
		w.Abs(x)
	case "neg":
		w.Neg(x)
	case "add":
		w.Add(x, y)
	case "sub":
		w.Sub(x, y)
	case "mul":
		w.Mul(x, y)
	case "quo":
		w.Quo(x, y)
	case "rem":
		w.Rem(x, y)
	case "div":
		w.Div(x, y)
	case "mod":
		w.Mod(x, y)
	case "and":
		w.And(x, y)
	case "or":
		w.Or(x, y)
	case "xor":
		w.Xor(x, y)
	case "andnot":
		w.AndNot(x, y)
	case "not":
		w.Not(x)
	case "sqrt":
		w.Sqrt(x)
	default:
		panic("verifBigIs: unknown op " + op)
	}
	return z.MathBigInt().Cmp(w) == 0
}

// verifBigInv is the representation invariant; its negSentinel clause is "zero is never negative".
func verifBigInv(z *BigInt) bool {
	switch {
	case z._inner == nil:
		return true
	case z._inner == negSentinel:
		return z._inline[0] != 0 || z._inline[1] != 0
	}
	bits := z._inner.Bits()
	if len(bits) == 0 {
		// a heap zero must not carry the sign flag (math/big's Sign hides it, Cmp does not)
		return z._inner.Cmp(new(big.Int)) == 0 && new(big.Int).Cmp(z._inner) == 0
	}
	return bits[len(bits)-1] != 0
}

func verifBigUnchanged(x *BigInt, sx int) bool {
	s := verifBigSnaps[sx]
	return verifSameBig(x, s.raw, s.heap)
}

func verifRefScalar(what string, sx, sy int) int64 {
	x, y := verifSnapVal(sx), verifSnapVal(sy)
	b2i := func(b bool) int64 {
		if b {
			return 1
		}
		return 0
	}
	switch what {
	case "sign":
		return int64(x.Sign())
	case "cmp":
		return int64(x.Cmp(y))
	case "cmpabs":
		return int64(x.CmpAbs(y))
	case "iszero":
		return b2i(x.Sign() == 0)
	case "isuint64":
		return b2i(x.IsUint64())
	case "isint64":
		return b2i(x.IsInt64())
	case "low64":
		return int64(x.Uint64())
	case "int64":
		return x.Int64()
	case "bit0":
		return int64(x.Bit(0))
	case "bitlen":
		return int64(x.BitLen())
	}
	panic("verifRefScalar: " + what)
}
