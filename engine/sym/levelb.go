package sym

// Level B: apd.BigInt is its real struct {_inner *big.Int, _inline [2]Word}; the real
// inner/updateInner/innerAsUint64/... and every wrapper method are executed from SSA
// (including the unsafe casts). The stub boundary is the math/big API: a big.Int object
// is {neg bool, abs []Word}; its methods compute on *reference values* (sign + normalised
// little-endian 64-bit words) with the constructors of this file, which the harness-side
// reference (verifBigIs...) shares - so what the solver decides is the wrapper plumbing,
// the uint64 fast paths and the representation invariant, not multi-word arithmetic.

import (
	"fmt"
	"math/big"
	"strings"

	"golang.org/x/tools/go/ssa"
)

type bigRef struct {
	neg   *Term   // Bool; meaningful only if len(words) > 0
	words []*Term // BV64, little endian, top word non-zero on this path
}

type bigSnap struct {
	ref bigRef
	raw Value   // deep copy of the BigInt struct
	hp  *Object // heap big.Int object (if any)
	hw  []*Term // its words
	hn  *Term   // its neg flag
}

func bv64(v Value) *Term { return toBV(v.(IntV), 64, false) }

func (ex *Exec) normalize(neg *Term, words []*Term) bigRef {
	n := len(words)
	for n > 0 {
		top := words[n-1]
		if top.IsConst() {
			if top.Val.Sign() != 0 {
				break
			}
			n--
			continue
		}
		if ex.decide(Eq(top, BVConst(64, bigZero))) {
			n--
			continue
		}
		break
	}
	return bigRef{neg: neg, words: append([]*Term{}, words[:n]...)}
}

// readBigObj reads the value of a math/big.Int object.
func (ex *Exec) readBigObj(p PtrV) bigRef {
	if p.Obj == nil {
		ex.panicEvent("nil *big.Int")
	}
	st := getAt(p.Obj.V, p.Path).(*StructV)
	neg := st.F[0].(BoolV).T
	abs := st.F[1].(SliceV)
	var words []*Term
	if !abs.Nil {
		for _, e := range ex.sliceElems(abs) {
			words = append(words, bv64(e))
		}
	}
	return ex.normalize(neg, words)
}

// readApdBig reads the value of an apd.BigInt through its representation.
func (ex *Exec) readApdBig(p PtrV) bigRef {
	st := getAt(p.Obj.V, p.Path).(*StructV)
	inner := st.F[0].(PtrV)
	inl := st.F[1].(*ArrayV)
	words := []*Term{bv64(inl.E[0]), bv64(inl.E[1])}
	switch {
	case inner.Obj == nil:
		return ex.normalize(TFalse, words)
	case inner.Obj == ex.negSentinelObj():
		return ex.normalize(TTrue, words)
	}
	return ex.readBigObj(inner)
}

func (ex *Exec) negSentinelObj() *Object {
	g := ex.P.Pkg.Var("negSentinel")
	o := ex.P.Globals[g]
	return o.V.(PtrV).Obj
}

// writeBigObj stores a value into a math/big.Int receiver the way math/big does: in place
// when it fits the capacity of the receiver's backing array (words beyond the new length
// are left dirty), otherwise into a freshly allocated array.
func (ex *Exec) writeBigObj(p PtrV, r bigRef) {
	st := getAt(p.Obj.V, p.Path).(*StructV)
	abs := st.F[1].(SliceV)
	n := len(r.words)
	neg := r.neg
	if n == 0 {
		neg = TFalse
	}
	if !abs.Nil && n <= abs.Cap {
		for i := 0; i < abs.Cap; i++ {
			var w Value
			if i < n {
				w = IntV{T: r.words[i]}
				if r.words[i].IsConst() {
					w = ConstBig(r.words[i].Val)
				}
			} else {
				w = IntV{T: ex.freshVar("dirty", Sort(64))}
			}
			ex.store(PtrV{Obj: abs.Arr, Path: append(append([]int{}, abs.Base...), abs.Off+i)}, w)
		}
		abs.Len = n
	} else {
		arr := &ArrayV{E: make([]Value, n+1)}
		for i := 0; i <= n; i++ {
			if i < n {
				arr.E[i] = IntV{T: r.words[i]}
			} else {
				arr.E[i] = IntV{T: ex.freshVar("dirty", Sort(64))}
			}
		}
		o := ex.newObject(arr, "big.nat", nil)
		abs = SliceV{Arr: o, Len: n, Cap: n + 1}
	}
	ex.store(PtrV{Obj: p.Obj, Path: append(append([]int{}, p.Path...), 0)}, BoolV{neg})
	ex.store(PtrV{Obj: p.Obj, Path: append(append([]int{}, p.Path...), 1)}, abs)
}

// ---------- reference arithmetic ----------

func concatWords(words []*Term, n int) *Term {
	// value of the little-endian words, zero-extended to n words
	var t *Term
	for i := n - 1; i >= 0; i-- {
		w := BVConst(64, bigZero)
		if i < len(words) {
			w = words[i]
		}
		if t == nil {
			t = w
		} else {
			t = BVConcat(t, w)
		}
	}
	return t
}

func signedVal(r bigRef, n int) *Term {
	mag := concatWords(r.words, n)
	if len(r.words) == 0 {
		return mag
	}
	return Ite(r.neg, BVNeg(mag), mag)
}

func splitWords(t *Term, n int) []*Term {
	out := make([]*Term, n)
	for i := 0; i < n; i++ {
		out[i] = BVExtract(64*i+63, 64*i, t)
	}
	return out
}

func (ex *Exec) refNeg(x bigRef) bigRef {
	if len(x.words) == 0 {
		return x
	}
	return bigRef{neg: Not(x.neg), words: x.words}
}

func (ex *Exec) refAbs(x bigRef) bigRef { return bigRef{neg: TFalse, words: x.words} }

func (ex *Exec) refAdd(x, y bigRef) bigRef {
	n := len(x.words)
	if len(y.words) > n {
		n = len(y.words)
	}
	n++ // room for the carry and the sign
	W := 64 * n
	s := BVBin("bvadd", signedVal(x, n), signedVal(y, n))
	neg := BVCmp("bvslt", s, BVConst(W, bigZero))
	mag := Ite(neg, BVNeg(s), s)
	return ex.normalize(neg, splitWords(mag, n))
}

func (ex *Exec) refCmp(x, y bigRef) IntV {
	n := len(x.words)
	if len(y.words) > n {
		n = len(y.words)
	}
	n++
	a, b := signedVal(x, n), signedVal(y, n)
	t := Ite(BVCmp("bvslt", a, b), IntConst64(-1), Ite(Eq(a, b), IntConst64(0), IntConst64(1)))
	if t.IsConst() {
		return ConstBig(t.Val)
	}
	return IntV{T: t, Lo: big.NewInt(-1), Hi: big.NewInt(1)}
}

func (ex *Exec) refSign(x bigRef) IntV {
	if len(x.words) == 0 {
		return ConstInt(0)
	}
	t := Ite(x.neg, IntConst64(-1), IntConst64(1))
	if t.IsConst() {
		return ConstBig(t.Val)
	}
	return IntV{T: t, Lo: big.NewInt(-1), Hi: big.NewInt(1)}
}

func (ex *Exec) refMul(x, y bigRef) bigRef {
	if len(x.words) == 0 || len(y.words) == 0 {
		return bigRef{neg: TFalse}
	}
	neg := Not(Eq(x.neg, y.neg))
	if len(x.words) == 1 && len(y.words) == 1 {
		hi, lo := ex.mul64(x.words[0], y.words[0])
		return ex.normalize(neg, []*Term{lo, hi})
	}
	r := ex.refUF("mulmag", []bigRef{ex.refAbs(x), ex.refAbs(y)}, nil, len(x.words)+len(y.words))
	return bigRef{neg: neg, words: r.words}
}

// refQuoRem: truncated division of magnitudes (y != 0), signs per math/big.
func (ex *Exec) refQuoRem(x, y bigRef) (bigRef, bigRef) {
	var q, r bigRef
	switch {
	case len(x.words) == 0:
		return bigRef{neg: TFalse}, bigRef{neg: TFalse}
	case len(x.words) == 1 && len(y.words) == 1:
		q = ex.normalize(TFalse, []*Term{BVBin("bvudiv", x.words[0], y.words[0])})
		r = ex.normalize(TFalse, []*Term{BVBin("bvurem", x.words[0], y.words[0])})
	default:
		q = ex.refUF("quomag", []bigRef{ex.refAbs(x), ex.refAbs(y)}, nil, len(x.words))
		r = ex.refUF("remmag", []bigRef{ex.refAbs(x), ex.refAbs(y)}, nil, len(y.words))
	}
	q.neg = Not(Eq(x.neg, y.neg))
	r.neg = x.neg
	return q, r
}

func refKey(op string, ops []bigRef, extra []string) string {
	var sb strings.Builder
	sb.WriteString(op)
	for _, o := range ops {
		sb.WriteString("_")
		if len(o.words) > 0 {
			fmt.Fprintf(&sb, "s%d", o.neg.id)
		}
		for _, w := range o.words {
			fmt.Fprintf(&sb, "w%d", w.id)
		}
	}
	for _, e := range extra {
		sb.WriteString("_" + e)
	}
	return sb.String()
}

// refUF is an uninterpreted math/big function of operand values: a fresh result (sign,
// length, words) per distinct application on a path.
func (ex *Exec) refUF(op string, ops []bigRef, extra []string, maxWords int) bigRef {
	if r, ok := concreteUF(op, ops, extra); ok {
		return r
	}
	key := refKey(op, ops, extra)
	if ex.ufMemo == nil {
		ex.ufMemo = map[string]bigRef{}
	}
	if r, ok := ex.ufMemo[key]; ok {
		return r
	}
	ex.ufSeq++
	tag := fmt.Sprintf("uf%d_%s", ex.ufSeq, op)
	if maxWords > 4 {
		maxWords = 4
	}
	ln := Var("fi!"+tag+"_len", SInt)
	ex.assumeT(Le(IntConst64(0), ln))
	ex.assumeT(Le(ln, IntConst64(int64(maxWords))))
	n := int(ex.concretize(IntV{T: ln, Lo: big.NewInt(0), Hi: big.NewInt(int64(maxWords))}, "uf result length").Int64())
	words := make([]*Term, n)
	for i := range words {
		words[i] = Var(fmt.Sprintf("fv64!%s_w%d", tag, i), Sort(64))
	}
	if n > 0 {
		ex.assumeT(Not(Eq(words[n-1], BVConst(64, bigZero))))
	}
	r := bigRef{neg: Var("fb!"+tag+"_neg", SBool), words: words}
	ex.ufMemo[key] = r
	return r
}

func refEq(a, b bigRef) *Term {
	if len(a.words) != len(b.words) {
		return TFalse
	}
	if len(a.words) == 0 {
		return TTrue
	}
	cs := []*Term{Eq(a.neg, b.neg)}
	for i := range a.words {
		cs = append(cs, Eq(a.words[i], b.words[i]))
	}
	return And(cs...)
}

// refApply is the reference semantics shared by the math/big stubs and the harness oracle.
func (ex *Exec) refApply(op string, x, y bigRef) bigRef {
	switch op {
	case "set":
		return x
	case "abs":
		return ex.refAbs(x)
	case "neg":
		return ex.refNeg(x)
	case "add":
		return ex.refAdd(x, y)
	case "sub":
		return ex.refAdd(x, ex.refNeg(y))
	case "mul":
		return ex.refMul(x, y)
	case "quo":
		q, _ := ex.refQuoRem(x, y)
		return q
	case "rem":
		_, r := ex.refQuoRem(x, y)
		return r
	}
	// everything else: an uninterpreted function of the operand values
	if op == "not" || op == "sqrt" {
		return ex.refUF(op, []bigRef{x}, nil, 4)
	}
	return ex.refUF(op, []bigRef{x, y}, nil, 4)
}

func (ex *Exec) isZeroRef(r bigRef) bool { return len(r.words) == 0 }

// ---------- math/big stubs (Level B) ----------

const mbig = "(*math/big.Int)."

func (ex *Exec) mathBigStub(name string) interceptFn {
	if !strings.HasPrefix(name, mbig) {
		return nil
	}
	m := name[len(mbig):]
	recvRes := func(ex *Exec, a []Value, r bigRef) Value {
		ex.writeBigObj(a[0].(PtrV), r)
		return a[0]
	}
	switch m {
	case "SetBits":
		return func(ex *Exec, a []Value, c *ssa.CallCommon) Value {
			p := a[0].(PtrV)
			abs := a[1].(SliceV)
			// z.abs = nat(abs).norm(); z.neg = false
			n := abs.Len
			for n > 0 {
				top := bv64(getAt(abs.Arr.V, append(append([]int{}, abs.Base...), abs.Off+n-1)))
				if top.IsConst() {
					if top.Val.Sign() != 0 {
						break
					}
					n--
					continue
				}
				if ex.decide(Eq(top, BVConst(64, bigZero))) {
					n--
					continue
				}
				break
			}
			abs.Len = n
			ex.store(PtrV{Obj: p.Obj, Path: append(append([]int{}, p.Path...), 0)}, ConstBool(false))
			ex.store(PtrV{Obj: p.Obj, Path: append(append([]int{}, p.Path...), 1)}, abs)
			return p
		}
	case "Bits":
		return func(ex *Exec, a []Value, c *ssa.CallCommon) Value {
			p := a[0].(PtrV)
			return getAt(p.Obj.V, p.Path).(*StructV).F[1]
		}
	case "Sign":
		return func(ex *Exec, a []Value, c *ssa.CallCommon) Value { return ex.refSign(ex.readBigObj(a[0].(PtrV))) }
	case "Cmp":
		return func(ex *Exec, a []Value, c *ssa.CallCommon) Value {
			return ex.refCmp(ex.readBigObj(a[0].(PtrV)), ex.readBigObj(a[1].(PtrV)))
		}
	case "CmpAbs":
		return func(ex *Exec, a []Value, c *ssa.CallCommon) Value {
			return ex.refCmp(ex.refAbs(ex.readBigObj(a[0].(PtrV))), ex.refAbs(ex.readBigObj(a[1].(PtrV))))
		}
	case "Set", "Abs", "Neg":
		return func(ex *Exec, a []Value, c *ssa.CallCommon) Value {
			return recvRes(ex, a, ex.refApply(strings.ToLower(m), ex.readBigObj(a[1].(PtrV)), bigRef{}))
		}
	case "Add", "Sub", "Mul", "And", "Or", "Xor", "AndNot", "GCDsimple":
		return func(ex *Exec, a []Value, c *ssa.CallCommon) Value {
			x, y := ex.readBigObj(a[1].(PtrV)), ex.readBigObj(a[2].(PtrV))
			return recvRes(ex, a, ex.refApply(strings.ToLower(m), x, y))
		}
	case "Quo", "Rem", "Div", "Mod":
		return func(ex *Exec, a []Value, c *ssa.CallCommon) Value {
			x, y := ex.readBigObj(a[1].(PtrV)), ex.readBigObj(a[2].(PtrV))
			if ex.isZeroRef(y) {
				ex.panicEvent("division by zero (math/big)")
			}
			return recvRes(ex, a, ex.refApply(strings.ToLower(m), x, y))
		}
	case "QuoRem", "DivMod":
		return func(ex *Exec, a []Value, c *ssa.CallCommon) Value {
			x, y := ex.readBigObj(a[1].(PtrV)), ex.readBigObj(a[2].(PtrV))
			if ex.isZeroRef(y) {
				ex.panicEvent("division by zero (math/big)")
			}
			var q, r bigRef
			if m == "QuoRem" {
				q, r = ex.refQuoRem(x, y)
				q, r = ex.normalize(q.neg, q.words), ex.normalize(r.neg, r.words)
			} else {
				q, r = ex.refApply("div", x, y), ex.refApply("mod", x, y)
			}
			ex.writeBigObj(a[0].(PtrV), q)
			ex.writeBigObj(a[3].(PtrV), r)
			return TupleV{a[0], a[3]}
		}
	case "Not", "Sqrt":
		return func(ex *Exec, a []Value, c *ssa.CallCommon) Value {
			x := ex.readBigObj(a[1].(PtrV))
			return recvRes(ex, a, ex.refUF(strings.ToLower(m), []bigRef{x}, nil, 4))
		}
	case "Lsh", "Rsh":
		return func(ex *Exec, a []Value, c *ssa.CallCommon) Value {
			x := ex.readBigObj(a[1].(PtrV))
			n := a[2].(IntV)
			return recvRes(ex, a, ex.refUF(strings.ToLower(m), []bigRef{x}, []string{n.T.SMT()}, 4))
		}
	case "Exp":
		return func(ex *Exec, a []Value, c *ssa.CallCommon) Value {
			x, y := ex.readBigObj(a[1].(PtrV)), ex.readBigObj(a[2].(PtrV))
			if a[3].(PtrV).Obj != nil {
				m := ex.readBigObj(a[3].(PtrV))
				return recvRes(ex, a, ex.refUF("expmod", []bigRef{x, y, m}, nil, 4))
			}
			return recvRes(ex, a, ex.refUF("exp", []bigRef{x, y}, nil, 4))
		}
	case "String", "Text":
		return func(ex *Exec, a []Value, c *ssa.CallCommon) Value {
			v, ok := concreteBig(ex.readBigObj(a[0].(PtrV)))
			if !ok {
				ex.unsupported("math/big %s of a symbolic value at Level B", m)
			}
			return ConstStr(v.String())
		}
	case "SetString":
		return func(ex *Exec, a []Value, c *ssa.CallCommon) Value {
			str, ok := a[1].(StrV).Concrete()
			if !ok {
				ex.unsupported("math/big SetString of a symbolic string at Level B")
			}
			v, ok := new(big.Int).SetString(str, int(a[2].(IntV).Const().Int64()))
			if !ok {
				return TupleV{PtrV{}, ConstBool(false)}
			}
			ex.writeBigObj(a[0].(PtrV), refOfBig(v))
			return TupleV{a[0], ConstBool(true)}
		}
	case "IsUint64":
		return func(ex *Exec, a []Value, c *ssa.CallCommon) Value {
			x := ex.readBigObj(a[0].(PtrV))
			if len(x.words) == 0 {
				return ConstBool(true)
			}
			return BoolV{And(Not(x.neg), BoolConst(len(x.words) <= 1))}
		}
	case "IsInt64":
		return func(ex *Exec, a []Value, c *ssa.CallCommon) Value {
			x := ex.readBigObj(a[0].(PtrV))
			switch len(x.words) {
			case 0:
				return ConstBool(true)
			case 1:
				w := x.words[0]
				min := BVConst(64, new(big.Int).Lsh(bigOneI, 63))
				return BoolV{Or(BVCmp("bvult", w, min), And(x.neg, Eq(w, min)))}
			}
			return ConstBool(false)
		}
	case "Uint64":
		return func(ex *Exec, a []Value, c *ssa.CallCommon) Value {
			x := ex.readBigObj(a[0].(PtrV))
			if len(x.words) == 0 {
				return ConstInt(0)
			}
			return bvResult(x.words[0])
		}
	case "Int64":
		return func(ex *Exec, a []Value, c *ssa.CallCommon) Value {
			x := ex.readBigObj(a[0].(PtrV))
			if len(x.words) == 0 {
				return ConstInt(0)
			}
			return bvResult(Ite(x.neg, BVNeg(x.words[0]), x.words[0]))
		}
	case "BitLen":
		return func(ex *Exec, a []Value, c *ssa.CallCommon) Value {
			x := ex.readBigObj(a[0].(PtrV))
			if len(x.words) == 0 {
				return ConstInt(0)
			}
			top := x.words[len(x.words)-1]
			l := bitsStub("math/bits.Len64")(ex, []Value{IntV{T: top}}, nil).(IntV)
			return ConstInt(int64(64*(len(x.words)-1)) + l.Const().Int64())
		}
	case "Bit":
		return func(ex *Exec, a []Value, c *ssa.CallCommon) Value {
			x := ex.readBigObj(a[0].(PtrV))
			i := a[1].(IntV)
			if i.IsConst() && i.Const().Sign() == 0 {
				if len(x.words) == 0 {
					return ConstInt(0)
				}
				return bvResult(BVBin("bvand", x.words[0], BVConst(64, bigOneI)))
			}
			ex.unsupported("math/big Bit(i) with i != 0 at Level B")
			return nil
		}
	}
	return nil
}

// ---------- harness primitives for Level B ----------

func init() {
	intercepts[apdP+"verifBigAny"] = func(ex *Exec, a []Value, c *ssa.CallCommon) Value {
		name, _ := a[0].(StrV).Concrete()
		p := a[1].(PtrV)
		maxHeap := a[2].(IntV).Const().Int64()
		in := func(suffix, kind string, s Sort) *Term {
			v := Var("in_"+name+"_"+suffix, s)
			ex.addInput(name+"_"+suffix, v, kind)
			return v
		}
		kindV := in("kind", "int", SInt)
		ex.assumeT(Le(IntConst64(0), kindV))
		ex.assumeT(Le(kindV, IntConst64(2)))
		kind := ex.concretize(IntV{T: kindV, Lo: big.NewInt(0), Hi: big.NewInt(2)}, "BigInt representation kind").Int64()
		w0, w1 := in("w0", "bits", Sort(64)), in("w1", "bits", Sort(64))
		st := &StructV{F: []Value{PtrV{}, &ArrayV{E: []Value{IntV{T: w0}, IntV{T: w1}}}}}
		switch kind {
		case 1:
			st.F[0] = PtrV{Obj: ex.negSentinelObj()}
			// representation invariant: a negative inline value is not zero
			ex.assumeT(Not(And(Eq(w0, BVConst(64, bigZero)), Eq(w1, BVConst(64, bigZero)))))
		case 2:
			nV := in("hn", "int", SInt)
			ex.assumeT(Le(IntConst64(0), nV))
			ex.assumeT(Le(nV, IntConst64(maxHeap)))
			n := int(ex.concretize(IntV{T: nV, Lo: big.NewInt(0), Hi: big.NewInt(maxHeap)}, "heap words").Int64())
			arr := &ArrayV{E: make([]Value, n+1)}
			for i := 0; i < n; i++ {
				arr.E[i] = IntV{T: in(fmt.Sprintf("h%d", i), "bits", Sort(64))}
			}
			arr.E[n] = IntV{T: ex.freshVar("dirty", Sort(64))}
			if n > 0 {
				ex.assumeT(Not(Eq(arr.E[n-1].(IntV).T, BVConst(64, bigZero))))
			}
			neg := TFalse
			if n > 0 {
				neg = in("hneg", "bool", SBool)
			}
			ao := ex.newObject(arr, "heap.nat", nil)
			ho := ex.newObject(&StructV{F: []Value{BoolV{neg}, SliceV{Arr: ao, Len: n, Cap: n + 1}}}, "heap.bigInt", nil)
			st.F[0] = PtrV{Obj: ho}
		}
		ex.store(p, st)
		return nil
	}
	snapOf := func(ex *Exec, p PtrV) bigSnap {
		s := bigSnap{ref: ex.readApdBig(p), raw: deepCopy(getAt(p.Obj.V, p.Path))}
		inner := s.raw.(*StructV).F[0].(PtrV)
		if inner.Obj != nil && inner.Obj != ex.negSentinelObj() {
			s.hp = inner.Obj
			hs := inner.Obj.V.(*StructV)
			s.hn = hs.F[0].(BoolV).T
			abs := hs.F[1].(SliceV)
			if !abs.Nil {
				for _, e := range ex.sliceElems(abs) {
					s.hw = append(s.hw, bv64(e))
				}
			}
		}
		return s
	}
	intercepts[apdP+"verifBigSnap"] = func(ex *Exec, a []Value, c *ssa.CallCommon) Value {
		ex.snaps = append(ex.snaps, snapOf(ex, a[0].(PtrV)))
		return ConstInt(int64(len(ex.snaps) - 1))
	}
	snapArg := func(ex *Exec, v Value) bigRef {
		i := int(v.(IntV).Const().Int64())
		if i < 0 {
			return bigRef{neg: TFalse}
		}
		return ex.snaps[i].ref
	}
	intercepts[apdP+"verifBigIs"] = func(ex *Exec, a []Value, c *ssa.CallCommon) Value {
		op, _ := a[1].(StrV).Concrete()
		want := ex.refApply(op, snapArg(ex, a[2]), snapArg(ex, a[3]))
		want = ex.normalize(want.neg, want.words)
		got := ex.readApdBig(a[0].(PtrV))
		return BoolV{refEq(got, want)}
	}
	intercepts[apdP+"verifBigInv"] = func(ex *Exec, a []Value, c *ssa.CallCommon) Value {
		p := a[0].(PtrV)
		st := getAt(p.Obj.V, p.Path).(*StructV)
		inner := st.F[0].(PtrV)
		inl := st.F[1].(*ArrayV)
		switch {
		case inner.Obj == nil:
			return ConstBool(true)
		case inner.Obj == ex.negSentinelObj():
			z := BVConst(64, bigZero)
			return BoolV{Not(And(Eq(bv64(inl.E[0]), z), Eq(bv64(inl.E[1]), z)))}
		}
		hs := inner.Obj.V.(*StructV)
		abs := hs.F[1].(SliceV)
		if abs.Nil || abs.Len == 0 {
			return BoolV{Not(hs.F[0].(BoolV).T)}
		}
		top := bv64(getAt(abs.Arr.V, append(append([]int{}, abs.Base...), abs.Off+abs.Len-1)))
		return BoolV{Not(Eq(top, BVConst(64, bigZero)))}
	}
	intercepts[apdP+"verifBigUnchanged"] = func(ex *Exec, a []Value, c *ssa.CallCommon) Value {
		now := snapOf(ex, a[0].(PtrV))
		old := ex.snaps[int(a[1].(IntV).Const().Int64())]
		ns, os := now.raw.(*StructV), old.raw.(*StructV)
		if ns.F[0].(PtrV).Obj != os.F[0].(PtrV).Obj {
			return ConstBool(false)
		}
		cs := []*Term{}
		for i := 0; i < 2; i++ {
			cs = append(cs, Eq(bv64(ns.F[1].(*ArrayV).E[i]), bv64(os.F[1].(*ArrayV).E[i])))
		}
		if old.hp != nil {
			if len(now.hw) != len(old.hw) {
				return ConstBool(false)
			}
			cs = append(cs, Eq(now.hn, old.hn))
			for i := range old.hw {
				cs = append(cs, Eq(now.hw[i], old.hw[i]))
			}
		}
		return BoolV{And(cs...)}
	}
	// verifRefScalar: reference value of math/big's scalar methods on snapshot values
	intercepts[apdP+"verifRefScalar"] = func(ex *Exec, a []Value, c *ssa.CallCommon) Value {
		what, _ := a[0].(StrV).Concrete()
		x, y := snapArg(ex, a[1]), snapArg(ex, a[2])
		b2i := func(t *Term) Value {
			r := Ite(t, IntConst64(1), IntConst64(0))
			if r.IsConst() {
				return ConstBig(r.Val)
			}
			return IntV{T: r, Lo: big.NewInt(0), Hi: big.NewInt(1)}
		}
		switch what {
		case "sign":
			return ex.refSign(x)
		case "cmp":
			return ex.refCmp(x, y)
		case "cmpabs":
			return ex.refCmp(ex.refAbs(x), ex.refAbs(y))
		case "iszero":
			return b2i(BoolConst(len(x.words) == 0))
		case "isuint64":
			if len(x.words) == 0 {
				return ConstInt(1)
			}
			return b2i(And(Not(x.neg), BoolConst(len(x.words) <= 1)))
		case "isint64":
			switch len(x.words) {
			case 0:
				return ConstInt(1)
			case 1:
				min := BVConst(64, new(big.Int).Lsh(bigOneI, 63))
				return b2i(Or(BVCmp("bvult", x.words[0], min), And(x.neg, Eq(x.words[0], min))))
			}
			return ConstInt(0)
		case "low64": // Uint64(): the low 64 bits of |x|
			if len(x.words) == 0 {
				return ConstInt(0)
			}
			return bvResult(x.words[0])
		case "int64": // Int64(): low 64 bits of |x|, negated if x < 0 (two's complement)
			if len(x.words) == 0 {
				return ConstInt(0)
			}
			return bvResult(Ite(x.neg, BVNeg(x.words[0]), x.words[0]))
		case "bit0":
			if len(x.words) == 0 {
				return ConstInt(0)
			}
			return bvResult(BVBin("bvand", x.words[0], BVConst(64, bigOneI)))
		case "bitlen":
			if len(x.words) == 0 {
				return ConstInt(0)
			}
			l := bitsStub("math/bits.Len64")(ex, []Value{IntV{T: x.words[len(x.words)-1]}}, nil).(IntV)
			return ConstInt(int64(64*(len(x.words)-1)) + l.Const().Int64())
		}
		ex.unsupported("verifRefScalar %s", what)
		return nil
	}
}

// ---------- concrete evaluation (package init, constant operands) ----------

func concreteBig(r bigRef) (*big.Int, bool) {
	v := new(big.Int)
	for i := len(r.words) - 1; i >= 0; i-- {
		if !r.words[i].IsConst() {
			return nil, false
		}
		v.Lsh(v, 64)
		v.Or(v, r.words[i].Val)
	}
	if len(r.words) > 0 {
		if !r.neg.IsConst() {
			return nil, false
		}
		if r.neg.IsTrue() {
			v.Neg(v)
		}
	}
	return v, true
}

func refOfBig(v *big.Int) bigRef {
	a := new(big.Int).Abs(v)
	mask := bvMask(64)
	var words []*Term
	for a.Sign() != 0 {
		words = append(words, BVConst(64, new(big.Int).And(a, mask)))
		a.Rsh(a, 64)
	}
	return bigRef{neg: BoolConst(v.Sign() < 0), words: words}
}

func concreteUF(op string, ops []bigRef, extra []string) (bigRef, bool) {
	vals := make([]*big.Int, len(ops))
	for i, o := range ops {
		v, ok := concreteBig(o)
		if !ok {
			return bigRef{}, false
		}
		vals[i] = v
	}
	r := new(big.Int)
	switch op {
	case "mulmag":
		r.Mul(vals[0], vals[1])
	case "quomag":
		r.Quo(vals[0], vals[1])
	case "remmag":
		r.Rem(vals[0], vals[1])
	case "div":
		r.Div(vals[0], vals[1])
	case "mod":
		r.Mod(vals[0], vals[1])
	case "and":
		r.And(vals[0], vals[1])
	case "or":
		r.Or(vals[0], vals[1])
	case "xor":
		r.Xor(vals[0], vals[1])
	case "andnot":
		r.AndNot(vals[0], vals[1])
	case "not":
		r.Not(vals[0])
	case "sqrt":
		r.Sqrt(vals[0])
	case "exp":
		r.Exp(vals[0], vals[1], nil)
	case "lsh", "rsh":
		n, ok := new(big.Int).SetString(strings.Trim(extra[0], "()- "), 10)
		if !ok {
			return bigRef{}, false
		}
		if op == "lsh" {
			r.Lsh(vals[0], uint(n.Uint64()))
		} else {
			r.Rsh(vals[0], uint(n.Uint64()))
		}
	default:
		return bigRef{}, false
	}
	return refOfBig(r), true
}
