//go:build verif

package apd

// verifAnyDecimal fills d with an arbitrary well-formed decimal of any form.
// Exponents range over the full package limits (param full=1) or the window.
func verifAnyDecimal(name string, d *Decimal) {
	K := verifParamInt("K")
	d.Form = Form(verifConcretize(verifNondetInt(name+"form", 0, 3)))
	d.Negative = verifNondetBool(name + "neg")
	verifNondetCoeff(name+"c", &d.Coeff, int(K))
	if verifParamInt("full") == 1 {
		d.Exponent = int32(verifNondetInt(name+"e", MinExponent, MaxExponent))
		adj := int64(d.Exponent) + verifNumDigits(&d.Coeff) - 1
		verifAssume(adj <= MaxExponent)
		verifAssume(adj >= MinExponent)
	} else {
		W := verifParamInt("W")
		d.Exponent = int32(verifNondetInt(name+"e", -W, W))
	}
}

// verifNumCmp is the exact numeric comparison of two finite decimals by cross-scaling
// (sign of x - y). gapBound: a gap beyond the digit counts is decided from digit counts.
func verifNumCmp(x, y *Decimal) int64 {
	xz, yz := x.Coeff.Sign() == 0, y.Coeff.Sign() == 0
	// signs
	xs, ys := int64(1), int64(1)
	if xz {
		xs = 0
	} else if x.Negative {
		xs = -1
	}
	if yz {
		ys = 0
	} else if y.Negative {
		ys = -1
	}
	if xs != ys {
		if xs < ys {
			return -1
		}
		return 1
	}
	if xs == 0 {
		return 0
	}
	// same non-zero sign: compare magnitudes
	ndx, ndy := verifNumDigits(&x.Coeff), verifNumDigits(&y.Coeff)
	ax, ay := int64(x.Exponent)+ndx, int64(y.Exponent)+ndy
	var m int64
	if ax < ay {
		m = -1
	} else if ax > ay {
		m = 1
	} else {
		// equal adjusted exponents: the gap is below the digit counts, scale exactly
		g := int64(x.Exponent) - int64(y.Exponent) // = ndy - ndx, concrete
		var a, b, t BigInt
		if g >= 0 {
			verifPow10(&t, g)
			a.Mul(&x.Coeff, &t)
			b.Set(&y.Coeff)
		} else {
			verifPow10(&t, -g)
			a.Set(&x.Coeff)
			b.Mul(&y.Coeff, &t)
		}
		m = int64(a.Cmp(&b))
	}
	return m * xs
}

// VerifCmp: Decimal.Cmp and Context.Cmp against the exact numeric order (C15).
func VerifCmp() {
	var x, y, d Decimal
	verifAnyDecimal("x", &x)
	verifAnyDecimal("y", &y)
	verifAssume(x.Form != NaN && x.Form != NaNSignaling && y.Form != NaN && y.Form != NaNSignaling)
	verifFreezeDecimal(&x, "operand")
	verifFreezeDecimal(&y, "operand")
	got := int64(x.Cmp(&y))
	verifObserveInt("cmp", got)
	var want int64
	switch {
	case x.Form == Infinite && y.Form == Infinite:
		want = 0
		if x.Negative != y.Negative {
			want = 1
			if x.Negative {
				want = -1
			}
		}
		verifCover("cmp.infinf")
	case x.Form == Infinite:
		want = 1
		if x.Negative {
			want = -1
		}
	case y.Form == Infinite:
		want = -1
		if y.Negative {
			want = 1
		}
	default:
		want = verifNumCmp(&x, &y)
		verifCover("cmp.finite")
	}
	verifAssert(got == want, "C15.cmp.value")
	// Context.Cmp delivers the same as a decimal, with no condition
	c := &Context{Precision: 5, MaxExponent: 10, MinExponent: -10}
	verifHavoc("d0", &d)
	res, err := c.Cmp(&d, &x, &y)
	ok := d.Form == Finite && d.Exponent == 0 && res == 0 && err == nil
	if ok {
		var w BigInt
		w.SetInt64(want)
		w.Abs(&w)
		ok = verifAnd(d.Coeff.Cmp(&w) == 0, d.Negative == (want < 0))
	}
	verifAssert(ok, "C15.ctxcmp.value")
	verifCheckFrozen()
}

// verifTotalKeyCmp compares the documented total-order keys of two decimals.
func verifTotalKeyCmp(x, y *Decimal) int64 {
	// class: -NaN < -sNaN < -Inf < -finite < +finite < +Inf < +sNaN < +NaN
	cls := func(d *Decimal) int64 {
		var r int64
		switch d.Form {
		case Finite:
			r = 1
		case Infinite:
			r = 2
		case NaNSignaling:
			r = 3
		default:
			r = 4
		}
		if d.Negative {
			return -r
		}
		return r
	}
	cx, cy := cls(x), cls(y)
	if cx != cy {
		if cx < cy {
			return -1
		}
		return 1
	}
	switch x.Form {
	case Infinite:
		return 0
	case NaN, NaNSignaling:
		// payload order (apd orders NaNs of the same sign and kind by coefficient)
		return int64(x.Coeff.Cmp(&y.Coeff))
	}
	// finite, same sign: numeric value first (zeros of one sign are numerically equal)
	ax, ay := *x, *y
	var n int64
	xz, yz := x.Coeff.Sign() == 0, y.Coeff.Sign() == 0
	if xz && yz {
		n = 0
	} else if xz {
		n = -1
		if x.Negative {
			n = 1
		}
	} else if yz {
		n = 1
		if x.Negative {
			n = -1
		}
	} else {
		n = verifNumCmp(&ax, &ay)
	}
	if n != 0 {
		return n
	}
	// equal value: smaller exponent first, reversed for negatives
	var e int64
	if x.Exponent < y.Exponent {
		e = -1
	} else if x.Exponent > y.Exponent {
		e = 1
	}
	if x.Negative {
		e = -e
	}
	return e
}

// VerifCmpTotal: CmpTotal equals the comparison of totally ordered keys (hence is a total
// order), is antisymmetric by direct self-composition, zero exactly on identical
// representations, and agrees with Cmp on numerically different numbers (C15).
func VerifCmpTotal() {
	var x, y Decimal
	verifAnyDecimal("x", &x)
	verifAnyDecimal("y", &y)
	verifFreezeDecimal(&x, "operand")
	verifFreezeDecimal(&y, "operand")
	got := int64(x.CmpTotal(&y))
	rev := int64(y.CmpTotal(&x))
	verifObserveInt("cmptotal", got)
	want := verifTotalKeyCmp(&x, &y)
	verifAssert(got == want, "C15.total.key")
	verifAssert(got == -rev, "C15.total.antisym")
	same := x.Form == y.Form && x.Negative == y.Negative
	if same && x.Form == Finite {
		same = verifAnd(x.Exponent == y.Exponent, x.Coeff.Cmp(&y.Coeff) == 0)
	} else if same && x.Form != Infinite {
		same = x.Coeff.Cmp(&y.Coeff) == 0
	}
	verifAssert(verifIff(got == 0, same), "C15.total.zero")
	if x.Form == Finite && y.Form == Finite {
		n := int64(x.Cmp(&y))
		verifAssert(verifImplies(n != 0, got == n), "C15.total.agrees")
	}
	verifCheckFrozen()
}
