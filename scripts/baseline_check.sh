#!/bin/bash
# Runs the repository's own test suite with the verif guard OFF and compares the set of
# passing tests with /root/.vp/BASELINE.json (stable_pass must all still pass).
export GOFLAGS=-mod=mod GOPROXY=off GOSUMDB=off GOTOOLCHAIN=local
out=$(mktemp)
(cd /repo && go test -json -vet=off -count=1 -timeout 25m ./... > "$out" 2>/dev/null)
python3 - "$out" <<'PY'
import json,sys
passed=set()
for line in open(sys.argv[1]):
    try: e=json.loads(line)
    except Exception: continue
    if e.get('Action')=='pass' and e.get('Test'):
        passed.add(e['Package']+'::'+e['Test'])
try:
    base=set(json.load(open('/root/.vp/BASELINE.json'))['stable_pass'])
except Exception as ex:
    print('no baseline file:',ex); base=set()
missing=sorted(base-passed)
print('passed=%d baseline=%d missing=%d'%(len(passed),len(base),len(missing)))
for m in missing[:20]: print('MISSING',m)
sys.exit(1 if missing else 0)
PY
rc=$?
rm -f "$out"
exit $rc
