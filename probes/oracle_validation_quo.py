# Oracle validation for Context.Quo (finite nonzero operands), oracle phrased on the RETURNED value.
import sys, time
from z3 import *
K=int(sys.argv[1]); mode=sys.argv[2]; region=sys.argv[3]; W=int(sys.argv[4]); which=sys.argv[5]
E=3*K+2*W+6
def nd_of(x):
    r=IntVal(E+1)
    for k in range(E,0,-1): r=If(x<10**k, IntVal(k), r)
    return r
def p10(k):
    r=IntVal(-1)
    for i in range(E,-1,-1): r=If(k==i, IntVal(10**i), r)
    return r
def addone(mode,y,neg,half):
    return {'down':BoolVal(False),'up':BoolVal(True),'half_up':half>=0,'half_down':half>0,
            'half_even':Or(half>0,And(half==0,y%2==1)),'ceiling':Not(neg),'floor':neg,'05up':y%5==0}[mode]
xc,yc,xe,ye,P,Emin,Emax=Ints('xc yc xe ye P Emin Emax'); xneg,yneg=Bools('xneg yneg')
s=Solver()
s.add(xc>=1,xc<10**K,yc>=1,yc<10**K,xe>=-W,xe<=W,ye>=-W,ye<=W,P>=1,P<=K,Emin<=0,Emin>=-W,Emax>=P,Emax<=3*W)
neg=Xor(xneg,yneg)
shift=xe-ye
ndD=nd_of(xc); ndV=nd_of(yc); ndDiff=ndD-ndV
dividend=If(ndDiff<0,xc*p10(-ndDiff),xc); divisor=If(ndDiff>0,yc*p10(ndDiff),yc)
lt=dividend<divisor
dividend2=If(lt,dividend*10,dividend); adjC=If(lt,-ndDiff+1,-ndDiff)
adjE=P-1
N=dividend2*p10(adjE)
q=Int('q'); rem=Int('rem'); s.add(N==q*divisor+rem,rem>=0,rem<divisor)
ndq=nd_of(q)
adj=shift-adjC-adjE+ndq-1
doround=And(rem!=0,adj>=Emin)
half=If(2*rem<divisor,-1,If(2*rem==divisor,0,1))
inc=And(doround,addone(mode,q,neg,half))
c1=If(inc,q+1,q)
IX0=doround; RD0=doround
# setExponent
sumexp=shift-adjC-adjE; nd1=nd_of(c1); adj1=sumexp+nd1-1
Etiny=Emin-(P-1)
sub=adj1<Emin; need=And(sub,sumexp<Etiny)
ex=Etiny-sumexp; T=If(need,p10(ex),IntVal(1))
qi=Int('qi'); mi=Int('mi'); s.add(c1==qi*T+mi,mi>=0,mi<T,T>0)
half2=If(2*mi<T,-1,If(2*mi==T,0,1))
inc2=And(need,mi!=0,addone(mode,qi,BoolVal(False),half2))   # integ.Negative is always false in the repo
integ=If(inc2,qi+1,qi)
c_=If(need,integ,c1); e_=If(need,Etiny,sumexp)
IX=Or(IX0,And(need,mi!=0)); SN=sub; RD=Or(RD0,need)
over=And(Not(sub),adj1>Emax); inf_=over
IX=Or(IX,over)
if region.startswith('normal'): s.add(adj>=Emin, Not(sub))
if ':' in region:
    pp,a,b=[int(t) for t in region.split(':')[1].split(',')]; s.add(P==pp,xc>=10**(a-1),xc<10**a,yc>=10**(b-1),yc<10**b)
# ---- oracle on returned value ----
g=ndD-ndV
ge=If(g>=0, xc>=yc*p10(g), xc*p10(-g)>=yc)
a_v=shift+If(ge,g,g-1)
qq=If(a_v-P+1>Etiny,a_v-P+1,Etiny)
# M = c_*10^(e_-qq) must be integer
k1=e_-qq
divis=If(k1>=0,BoolVal(True),c_%p10(-k1)==0)
M=If(k1>=0,c_*p10(k1),c_/p10(-k1))
k=qq-shift
L=If(k>=0,M*p10(k)*yc,M*yc); V=If(k>=0,xc,xc*p10(-k)); U=If(k>=0,p10(k)*yc,yc)
floorN=And(L<=V,V<L+U); ceilN=And(L-U<V,V<=L); exact=L==V
rel={'down':floorN,'up':ceilN,'ceiling':If(neg,floorN,ceilN),'floor':If(neg,ceilN,floorN),
 'half_up':And(2*(V-L)<U,2*(L-V)<=U),'half_down':And(2*(V-L)<=U,2*(L-V)<U),
 'half_even':And(2*(V-L)<=U,2*(L-V)<=U,Implies(Or(2*(V-L)==U,2*(L-V)==U),M%2==0)),
 '05up':Or(exact,And(floorN,M%5!=0),And(ceilN,Not(exact),(M-1)%5==0))}[mode]
s.add(p10(If(k1>=0,k1,-k1))>0,p10(If(k>=0,k,-k))>0,p10(If(g>=0,g,-g))>0)
ok_val=Implies(Not(inf_),And(divis,rel))
ok_flags=Implies(Not(inf_),And(IX==Not(exact),SN==(a_v<Emin)))
ok_fit=Implies(Not(inf_),And(nd_of(c_)<=P,Implies(c_!=0,e_>=Etiny)))
s.add(Not({'val':ok_val,'flags':ok_flags,'fit':ok_fit}[which]))
s.set('timeout',280000)
tm=time.time(); r=s.check(); print(K,mode,region,which,r,round(time.time()-tm,2))
if r==sat:
    mdl=s.model(); print(dict(zip('xc xe yc ye xneg yneg P Emin Emax c e M'.split(),[mdl.eval(v) for v in [xc,xe,yc,ye,xneg,yneg,P,Emin,Emax,c_,e_,M]])))
