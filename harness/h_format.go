//go:build verif

package apd

import "strconv"

// verifSciString is an independent formatter written from the GDA text:
// to-scientific-string ('G'/'g'), always-exponential ('E'/'e') and plain ('f'), with apd's
// documented exception that a zero with exponent in [-2000,-1] is written out in plain notation.
func verifSciString(d *Decimal, f byte) string {
	var b []byte
	if d.Negative {
		b = append(b, '-')
	}
	switch d.Form {
	case NaN:
		return string(append(b, "NaN"...))
	case NaNSignaling:
		return string(append(b, "sNaN"...))
	case Infinite:
		return string(append(b, "Infinity"...))
	}
	digits := verifDigits(&d.Coeff)
	nd := int64(len(digits))
	exp := int64(d.Exponent)
	adj := exp + nd - 1
	plain := exp <= 0 && adj >= -6
	if d.Coeff.Sign() == 0 && exp >= -2000 && exp < 0 {
		plain = true
	}
	ech := byte('E')
	switch f {
	case 'e', 'g':
		ech = 'e'
	}
	switch f {
	case 'E', 'e':
		plain = false
	case 'f':
		plain = true
	}
	if plain {
		switch {
		case exp >= 0:
			b = append(b, digits...)
			for i := int64(0); i < exp; i++ {
				b = append(b, '0')
			}
		case nd > -exp:
			ip := int(nd + exp)
			b = append(b, digits[:ip]...)
			b = append(b, '.')
			b = append(b, digits[ip:]...)
		default:
			b = append(b, '0', '.')
			for i := int64(0); i < -exp-nd; i++ {
				b = append(b, '0')
			}
			b = append(b, digits...)
		}
		return string(b)
	}
	b = append(b, digits[0])
	if nd > 1 {
		b = append(b, '.')
		b = append(b, digits[1:]...)
	}
	b = append(b, ech)
	if adj < 0 {
		b = append(b, '-')
		adj = -adj
	} else {
		b = append(b, '+')
	}
	b = strconv.AppendInt(b, adj, 10)
	return string(b)
}

// verifFormatOperand: an arbitrary decimal for the formatting harnesses. The exponent ranges
// over [elo, ehi]; a zero coefficient with a large exponent magnitude makes plain notation pad
// that many zeros, so such exponents are enumerated.
func verifFormatOperand(d *Decimal) {
	K := verifParamInt("K")
	d.Form = Form(verifConcretize(verifNondetInt("xform", 0, 3)))
	d.Negative = verifNondetBool("xneg")
	verifNondetCoeff("xc", &d.Coeff, int(K))
	d.Exponent = int32(verifNondetInt("xe", verifParamInt("elo"), verifParamInt("ehi")))
	if d.Form == Finite {
		adj := int64(d.Exponent) + verifNumDigits(&d.Coeff) - 1
		verifAssume(adj <= MaxExponent && adj >= MinExponent)
	}
}

// VerifFormat: Text/String/MarshalText/Value/Format verbs equal the independent formatter and
// parse back to the identical Decimal (C14 formatting, C13 round trip). param fmt: G g E e f.
func VerifFormat() {
	var d Decimal
	verifFormatOperand(&d)
	f := verifParamStr("fmt")[0]
	switch verifParamStr("via") {
	case "string", "marshal", "value":
		f = 'G' // String, MarshalText and Value are Text('G')
	}
	if d.Form == Finite && d.Coeff.Sign() == 0 && verifParamInt("ehi")-verifParamInt("elo") < 64 {
		// a zero is padded with |exponent| zeros in plain notation: enumerate the exponent
		d.Exponent = int32(verifConcretize(int64(d.Exponent)))
	}
	verifFreezeDecimal(&d, "operand")
	var got string
	switch verifParamStr("via") {
	case "text":
		got = d.Text(f)
	case "string":
		got = d.String()
	case "marshal":
		b, _ := d.MarshalText()
		got = string(b)
	case "value":
		v, _ := d.Value()
		got = v.(string)
	case "append":
		got = string(d.Append([]byte{'x'}, f)[1:])
	}
	verifCheckFrozen()
	verifObserveStr("text", got)
	want := verifSciString(&d, f)
	verifAssert(got == want, "C14.format."+string(f))
	// round trip
	var back Decimal
	verifHavoc("b0", &back)
	ret, _, err := back.SetString(got)
	verifAssert(err == nil && ret == &back, "C13.roundtrip.parses")
	if err != nil {
		return
	}
	same := back.Form == d.Form && back.Negative == d.Negative
	switch d.Form {
	case Finite:
		if f == 'f' {
			// plain notation round-trips the numeric value and the sign
			var x, y Decimal
			x.Set(&d)
			y.Set(&back)
			x.Negative, y.Negative = false, false
			same = same && verifNumCmp(&x, &y) == 0
		} else {
			same = verifAnd(same, verifAnd(back.Exponent == d.Exponent, back.Coeff.Cmp(&d.Coeff) == 0))
		}
	case NaN, NaNSignaling:
		// String does not print a payload; the claim is for payload-free NaNs
		same = verifAnd(same, verifOr(d.Coeff.Sign() != 0, back.Coeff.Sign() == 0))
	}
	verifAssert(same, "C13.roundtrip."+string(f))
	if d.Form == Finite && d.Coeff.Sign() == 0 {
		verifCover("format.zero")
	}
}

// verifState is a harness-defined fmt.State.
type verifState struct {
	buf                      []byte
	plus, minus, space, zero bool
	hasWidth                 bool
	width                    int
}

func (s *verifState) Write(b []byte) (int, error) { s.buf = append(s.buf, b...); return len(b), nil }
func (s *verifState) Width() (int, bool)          { return s.width, s.hasWidth }
func (s *verifState) Precision() (int, bool)      { return 0, false }
func (s *verifState) Flag(c int) bool {
	switch c {
	case '+':
		return s.plus
	case '-':
		return s.minus
	case ' ':
		return s.space
	case '0':
		return s.zero
	}
	return false
}

// VerifFormatFlags: Format writes the Text form with +, space, -, 0 and width applied the
// way fmt applies them to numbers (C14). param verb: v s G g E e f F.
func VerifFormatFlags() {
	var d Decimal
	verifFormatOperand(&d)
	verb := verifParamStr("verb")[0]
	st := &verifState{plus: verifNondetBool("plus"), minus: verifNondetBool("minus"), space: verifNondetBool("space"), zero: verifNondetBool("zero"),
		hasWidth: verifNondetBool("haswidth"), width: int(verifConcretize(verifNondetInt("width", 0, verifParamInt("maxwidth"))))}
	d.Format(st, rune(verb))
	got := string(st.buf)
	verifObserveStr("out", got)
	tf := verb
	switch verb {
	case 'v', 's':
		tf = 'G'
	case 'F':
		tf = 'f'
	}
	body := verifSciString(&d, tf)
	sign := ""
	if len(body) > 0 && body[0] == '-' {
		sign, body = "-", body[1:]
	} else if st.plus {
		sign = "+"
	} else if st.space {
		sign = " "
	}
	pad := 0
	if st.hasWidth && st.width > len(sign)+len(body) {
		pad = st.width - len(sign) - len(body)
	}
	var w []byte
	rep := func(ch byte, n int) {
		for i := 0; i < n; i++ {
			w = append(w, ch)
		}
	}
	switch {
	case st.minus: // left-justify; fmt ignores 0 together with -
		w = append(w, sign...)
		w = append(w, body...)
		rep(' ', pad)
	case st.zero && d.Form == Finite:
		w = append(w, sign...)
		rep('0', pad)
		w = append(w, body...)
	default:
		rep(' ', pad)
		w = append(w, sign...)
		w = append(w, body...)
	}
	verifAssert(got == string(w), "C14.formatflags."+string(verb))
}
