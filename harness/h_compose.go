//go:build verif

package apd

// VerifCompose: Compose(Decompose(d)) reproduces d, signaling NaN becoming quiet (C13);
// Decompose does not modify d, with and without a caller-provided buffer.
func VerifCompose() {
	var d Decimal
	verifFormatOperand(&d)
	verifFreezeDecimal(&d, "operand")
	var buf []byte
	if n := verifParamInt("bufcap"); n > 0 {
		buf = make([]byte, 0, n)
	}
	form, neg, coef, exp := d.Decompose(buf)
	verifCheckFrozen()
	var back Decimal
	verifHavoc("b0", &back)
	err := back.Compose(form, neg, coef, exp)
	verifAssert(err == nil, "C13.compose.error")
	if err != nil {
		return
	}
	wantForm := d.Form
	if wantForm == NaNSignaling {
		wantForm = NaN
	}
	same := back.Form == wantForm && back.Negative == d.Negative
	if d.Form == Finite {
		same = verifAnd(same, verifAnd(back.Exponent == d.Exponent, back.Coeff.Cmp(&d.Coeff) == 0))
		verifCover("compose.finite")
	}
	verifAssert(same, "C13.compose.roundtrip")
}

// VerifMisc: entry points that have no harness of their own, for totality (C04): unknown
// format verbs, Condition.String for every documented condition set, Compose with arbitrary
// form bytes, Modf with nil outputs, Size/Sign/IsZero/NumDigits on every form.
func VerifMisc() {
	var d Decimal
	verifFormatOperand(&d)
	what := verifParamStr("what")
	switch what {
	case "verbs":
		st := &verifState{}
		d.Format(st, rune(verifNondetInt("verb", 0, 127)))
	case "condstring":
		r := Condition(verifNondetBits32("res"))
		verifAssume(r <= 0xFFF)
		s := r.String()
		verifAssert(verifImplies(r&^(SystemOverflow|SystemUnderflow) != 0, len(s) > 0), "C04.condstring.nonempty")
		_, err := r.GoError(DefaultTraps)
		_ = err
	case "compose":
		var back Decimal
		form := byte(verifNondetInt("form", 0, 255))
		n := int(verifParamInt("n"))
		coef := []byte(verifNondetString("coef", n, 0, 255))
		err := back.Compose(form, verifNondetBool("neg"), coef, int32(verifNondetInt("exp", -2147483648, 2147483647)))
		verifAssert(verifIff(err != nil, form > 2), "C04.compose.error_iff_bad_form")
		if err == nil {
			verifAssert(back.Coeff.Sign() >= 0, "C04.compose.coeff")
		}
	case "accessors":
		var i1, f1 Decimal
		d.Modf(nil, nil)
		d.Modf(&i1, nil)
		d.Modf(nil, &f1)
		_ = d.Sign()
		_ = d.IsZero()
		_ = d.NumDigits()
		_ = d.CmpTotal(&d)
		var r Decimal
		_, n := r.Reduce(&d)
		verifAssert(n >= 0, "C04.reduce.count_nonneg")
		var a, ng Decimal
		a.Abs(&d)
		ng.Neg(&d)
		if d.Exponent <= 24 {
			// (the x10 loop of Int64 runs Exponent times: bounded here, see C17)
			_, _ = d.Int64()
		}
		b, _ := d.MarshalText()
		verifAssert(len(b) > 0, "C04.marshal.nonempty")
	}
}
