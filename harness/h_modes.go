//go:build verif

package apd

var verifAllModes = []Rounder{RoundDown, RoundHalfUp, RoundHalfEven, RoundCeiling, RoundFloor, RoundHalfDown, RoundUp, Round05Up}

// verifResCmp compares two results numerically (finite or infinite); -1, 0, 1.
func verifResCmp(a, b *Decimal) int64 {
	ai, bi := a.Form == Infinite, b.Form == Infinite
	switch {
	case ai && bi:
		if a.Negative == b.Negative {
			return 0
		}
		if a.Negative {
			return -1
		}
		return 1
	case ai:
		if a.Negative {
			return -1
		}
		return 1
	case bi:
		if b.Negative {
			return 1
		}
		return -1
	}
	return verifNumCmp(a, b)
}

// verifAbsCmp compares magnitudes.
func verifAbsCmp(a, b *Decimal) int64 {
	x, y := *a, *b
	x.Negative, y.Negative = false, false
	return verifResCmp(&x, &y)
}

// verifAdjacentOrEqual: lo <= hi are equal or neighbouring representable values
// (infinity being adjacent to the largest finite value of the context).
func verifAdjacentOrEqual(c *Context, lo, hi *Decimal) bool {
	if verifResCmp(lo, hi) == 0 {
		return true
	}
	P := int64(c.Precision)
	var maxc BigInt
	verifPow10(&maxc, P)
	maxc.Sub(&maxc, bigOne)
	etop := int64(c.MaxExponent) - P + 1
	if hi.Form == Infinite {
		// lo must be the largest finite value (positive side) ...
		return lo.Form == Finite && !lo.Negative && !hi.Negative && lo.Coeff.Cmp(&maxc) == 0 && int64(lo.Exponent) == etop
	}
	if lo.Form == Infinite {
		return hi.Form == Finite && hi.Negative && lo.Negative && hi.Coeff.Cmp(&maxc) == 0 && int64(hi.Exponent) == etop
	}
	// both finite: one unit apart at the finer of the two exponents
	g := verifConcretize(int64(hi.Exponent) - int64(lo.Exponent))
	var a, b, t, diff BigInt
	if g >= 0 {
		verifPow10(&t, g)
		a.Mul(&hi.Coeff, &t)
		b.Set(&lo.Coeff)
	} else {
		verifPow10(&t, -g)
		a.Set(&hi.Coeff)
		b.Mul(&lo.Coeff, &t)
	}
	if hi.Negative {
		a.Neg(&a)
	}
	if lo.Negative {
		b.Neg(&b)
	}
	diff.Sub(&a, &b)
	return diff.Cmp(bigOne) == 0
}

// VerifModes: the eight rounding modes bracket each other on the same operands (C20, no oracle).
func VerifModes() {
	c := verifCtx()
	op := verifParamStr("op")
	var x, y Decimal
	verifFinite("x", &x)
	switch op {
	case "add", "sub", "mul":
		verifFinite("y", &y)
	case "quo":
		verifDivisor("y", &y)
	}
	aux := int32(0)
	if op == "quantize" {
		aux = int32(verifNondetInt("qe", -4, 4))
	}
	var d [8]Decimal
	var res [8]Condition
	sys := false
	nan := false
	for i, m := range verifAllModes {
		ci := *c
		ci.Rounding = m
		_, r, _ := verifApply(op, &ci, &d[i], &x, &y, aux)
		res[i] = r
		if r&(SystemOverflow|SystemUnderflow) != 0 {
			sys = true
		}
		if d[i].Form != Finite && d[i].Form != Infinite {
			nan = true
		}
	}
	for i := range verifAllModes {
		verifObserveInt("res."+string(verifAllModes[i]), int64(res[i]))
		verifObserveInt("form."+string(verifAllModes[i]), int64(d[i].Form))
		if d[i].Form == Finite {
			verifObserveBig("coeff."+string(verifAllModes[i]), &d[i].Coeff)
			verifObserveInt("exp."+string(verifAllModes[i]), int64(d[i].Exponent))
		}
	}
	if sys || nan {
		verifCover("modes.skipped")
		return
	}
	const (
		iDown  = 0
		iCeil  = 3
		iFloor = 4
		iUp    = 6
	)
	tag := "C20." + op
	for i := range verifAllModes {
		verifAssert(verifAnd(verifResCmp(&d[iFloor], &d[i]) <= 0, verifResCmp(&d[i], &d[iCeil]) <= 0), tag+".floor_ceiling_bracket")
		verifAssert(verifAnd(verifAbsCmp(&d[iDown], &d[i]) <= 0, verifAbsCmp(&d[i], &d[iUp]) <= 0), tag+".down_up_bracket")
	}
	for _, i := range []int{1, 2, 5} {
		verifAssert(verifOr(verifSameObservable(&d[i], &d[iDown]), verifSameObservable(&d[i], &d[iUp])), tag+".half_is_down_or_up")
	}
	if !res[iDown].Inexact() {
		for i := range verifAllModes {
			// (an exact zero sum is -0 under round-floor and +0 otherwise: GDA sign rule, C08)
			same := verifSameObservable(&d[i], &d[iDown])
			if d[i].Form == Finite && d[iDown].Form == Finite {
				same = verifOr(same, verifAnd(d[i].Exponent == d[iDown].Exponent, verifAnd(d[i].Coeff.Sign() == 0, d[iDown].Coeff.Sign() == 0)))
			}
			verifAssert(verifAnd(same, res[i]&Inexact == 0), tag+".exact_all_equal")
		}
		verifCover("modes.exact")
	} else {
		if res[iDown]&Overflow == 0 && res[iUp]&Overflow == 0 {
			verifAssert(verifResCmp(&d[iDown], &d[iUp]) != 0, tag+".inexact_down_ne_up")
		}
		for i := range verifAllModes {
			verifAssert(res[i].Inexact(), tag+".inexact_all")
		}
		verifCover("modes.inexact")
	}
	verifAssert(verifAdjacentOrEqual(c, &d[iFloor], &d[iCeil]), tag+".floor_ceiling_adjacent")
}

func verifMirror(m Rounder) Rounder {
	switch m {
	case RoundFloor:
		return RoundCeiling
	case RoundCeiling:
		return RoundFloor
	}
	return m
}

// VerifRelations: two-input relations between runs (C20): param rel.
func VerifRelations() {
	c := verifCtx()
	rel := verifParamStr("rel")
	op := verifParamStr("op")
	var x, y Decimal
	verifFinite("x", &x)
	switch op {
	case "add", "sub", "mul", "rem":
		verifFinite("y", &y)
	case "quo":
		verifDivisor("y", &y)
	}
	var d1, d2 Decimal
	tag := "C20." + rel + "." + op
	switch rel {
	case "commute": // op(x,y) == op(y,x), value and flags
		_, r1, _ := verifApply(op, c, &d1, &x, &y, 0)
		_, r2, _ := verifApply(op, c, &d2, &y, &x, 0)
		verifAssert(verifAnd(verifSameObservable(&d1, &d2), r1 == r2), tag)
	case "sub_is_add_neg": // Sub(x,y) == Add(x,-y)
		var ny Decimal
		ny.Set(&y)
		ny.Negative = !y.Negative
		_, r1, _ := verifApply("sub", c, &d1, &x, &y, 0)
		_, r2, _ := verifApply("add", c, &d2, &x, &ny, 0)
		verifAssert(verifAnd(verifSameObservable(&d1, &d2), r1 == r2), tag)
	case "mirror": // op_mode(-x,-y) == -op_mirror(mode)(x,y)
		var nx, ny Decimal
		nx.Set(&x)
		nx.Negative = !x.Negative
		ny.Set(&y)
		ny.Negative = !y.Negative
		cm := *c
		cm.Rounding = verifMirror(c.Rounding)
		_, r1, _ := verifApply(op, c, &d1, &nx, &ny, 0)
		if op == "mul" || op == "quo" {
			// the sign of a product/quotient is unchanged by negating both: compare under the same mode
			_, r2, _ := verifApply(op, c, &d2, &x, &y, 0)
			verifAssert(verifAnd(verifSameObservable(&d1, &d2), r1 == r2), tag)
		} else {
			_, r2, _ := verifApply(op, &cm, &d2, &x, &y, 0)
			same := d1.Form == d2.Form
			if same && d1.Form == Finite {
				same = verifAnd(d1.Exponent == d2.Exponent, d1.Coeff.Cmp(&d2.Coeff) == 0)
				// the sign is mirrored, except for zeros whose sign rules are not symmetric (exact zero sums)
				same = verifAnd(same, verifOr(d1.Coeff.Sign() == 0, d1.Negative != d2.Negative))
			} else if same {
				same = d1.Negative != d2.Negative
			}
			verifAssert(verifAnd(same, r1 == r2), tag)
		}
	case "scale": // scaling both operands (add/sub/rem) or one operand (mul/quo) by 10^k scales the result
		k := verifNondetInt("k", -3, 3)
		var sx, sy Decimal
		sx.Set(&x)
		sy.Set(&y)
		sx.Exponent = x.Exponent + int32(k)
		if op == "add" || op == "sub" || op == "rem" {
			sy.Exponent = y.Exponent + int32(k)
		}
		_, r1, _ := verifApply(op, c, &d1, &x, &y, 0)
		_, r2, _ := verifApply(op, c, &d2, &sx, &sy, 0)
		// as long as both computations stay inside the normal exponent range
		normal := r1&(Subnormal|Underflow|Overflow|Clamped|SystemOverflow|SystemUnderflow) == 0 && r2&(Subnormal|Underflow|Overflow|Clamped|SystemOverflow|SystemUnderflow) == 0
		if !normal || d1.Form != Finite || d2.Form != Finite {
			verifCover("scale.skipped")
			return
		}
		ok := verifAnd(d1.Negative == d2.Negative, verifAnd(d1.Coeff.Cmp(&d2.Coeff) == 0, verifAnd(r1 == r2,
			verifOr(d1.Coeff.Sign() == 0, int64(d2.Exponent) == int64(d1.Exponent)+k))))
		verifAssert(ok, tag)
	case "monotone": // x <= y implies Round(x) <= Round(y)
		verifFinite("y", &y)
		verifAssume(verifNumCmp(&x, &y) <= 0)
		_, r1, _ := verifApply("round", c, &d1, &x, &y, 0)
		_, r2, _ := verifApply("round", c, &d2, &y, &x, 0)
		if r1&(SystemOverflow|SystemUnderflow) != 0 || r2&(SystemOverflow|SystemUnderflow) != 0 {
			return
		}
		verifAssert(verifResCmp(&d1, &d2) <= 0, tag)
	}
}
