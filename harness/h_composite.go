//go:build verif

package apd

// Iterative functions (Sqrt, Cbrt, Exp, Ln, Log10, Pow) on CONCRETE operands and contexts
// (instance parameters) under EVERY trap set (symbolic): with concrete operands the engine
// interprets the numeric core by constant folding (including the float64 detours, which are
// evaluated with Go's own strconv/math), and the solver decides which trap bits make which
// internal step fail. Checked: error plumbing (C03), termination within an execution bound
// (C04), the result fits the caller's context (C07), nothing is written to shared state (C06/C18).
func VerifComposite() {
	op := verifParamStr("op")
	c := &Context{
		Precision:   uint32(verifParamInt("P")),
		MinExponent: int32(verifParamInt("Emin")),
		MaxExponent: int32(verifParamInt("Emax")),
		Rounding:    Rounder(verifParamStr("mode")),
	}
	if verifParamStr("traps") == "sym" {
		c.Traps = Condition(verifNondetInt("traps", 0, 0xFFF))
	}
	x, _, errx := NewFromString(verifParamStr("x"))
	y := New(0, 0)
	if op == "pow" {
		var erry error
		y, _, erry = NewFromString(verifParamStr("y"))
		verifAssume(erry == nil)
	}
	verifAssume(errx == nil)
	verifFreezeDecimal(x, "operand")
	verifFreezeDecimal(y, "operand")
	verifFreezeContext(c, "context")
	var d, d0 Decimal
	verifHavoc("d0", &d)
	d0.Set(&d)
	_, res, err := verifApply(op, c, &d, x, y, 0)
	verifCheckFrozen()
	verifObserveOut(op, &d, res, err)

	// reference run with an empty trap set
	c0 := *c
	c0.Traps = 0
	var dref Decimal
	_, res0, err0 := verifApply(op, &c0, &dref, x, y, 0)

	tag := op
	// a trapped condition that was raised must be reported
	verifAssert(verifImplies(res&c.Traps != 0, err != nil), "C03."+tag+".trapped_flag_without_error")
	// with no error the outcome is that of the trap-free run
	if err == nil {
		verifAssert(verifSameObservable(&d, &dref), "C03."+tag+".traps_changed_value")
		verifAssert(res == res0, "C03."+tag+".traps_changed_flags")
		verifAssert(err0 == nil || res0&c.Traps == 0, "C03."+tag+".error_lost")
		// a finite result fits the caller's context
		verifAssert(verifFit(c, &d), "C07."+tag+".fit")
		verifCover("composite.ok")
	} else {
		verifCover("composite.error")
	}
	// a condition that the trap-free run raises and that is trapped cannot go unreported
	verifAssert(verifImplies(res0&c.Traps != 0, err != nil), "C03."+tag+".silent_trap")

	// aliasing (C05): destination == first operand gives the same outcome as the distinct layout
	var xa Decimal
	xa.Set(x)
	var resA Condition
	var errA error
	if op == "pow" {
		_, resA, errA = verifApply(op, c, &xa, &xa, y, 0)
	} else {
		_, resA, errA = verifApply(op, c, &xa, &xa, &xa, 0)
	}
	verifAssert((errA != nil) == (err != nil), "C05."+tag+".alias_err")
	verifAssert(resA == res, "C05."+tag+".alias_flags")
	if err == nil && errA == nil {
		verifAssert(verifSameObservable(&xa, &d), "C05."+tag+".alias_value")
	}
}
