//go:build verif

package apd

// GDA special-value table (C08). The expectation for a cell is written from the
// specification text; cells the property statement does not spell out get only the
// generic consequences (kind 0).
type verifExpect struct {
	kind    int // 0 no specific claim, 1 NaN, 2 Infinity, 3 finite zero, 4 the finite operand x unchanged, 5 finite one
	neg     bool
	flags   Condition // exact set among the "exception" conditions below
	nanFrom *Decimal  // the NaN operand the result is a quiet copy of
}

const verifExcFlags = InvalidOperation | DivisionByZero | DivisionUndefined | DivisionImpossible

func verifIsNaN(d *Decimal) bool  { return d.Form == NaN || d.Form == NaNSignaling }
func verifIsZero(d *Decimal) bool { return d.Form == Finite && d.Coeff.Sign() == 0 }

// verifNaNRule implements: a signaling NaN raises InvalidOperation and yields a quiet NaN;
// otherwise quiet NaNs propagate silently; first operand first.
func verifNaNRule(x, y *Decimal) (bool, verifExpect) {
	switch {
	case x.Form == NaNSignaling:
		return true, verifExpect{kind: 1, flags: InvalidOperation, nanFrom: x}
	case y != nil && y.Form == NaNSignaling:
		return true, verifExpect{kind: 1, flags: InvalidOperation, nanFrom: y}
	case x.Form == NaN:
		return true, verifExpect{kind: 1, nanFrom: x}
	case y != nil && y.Form == NaN:
		return true, verifExpect{kind: 1, nanFrom: y}
	}
	return false, verifExpect{}
}

func verifInvalid() verifExpect { return verifExpect{kind: 1, flags: InvalidOperation} }

// verifBinaryExpect: x, y with at least one special operand or a zero divisor.
func verifBinaryExpect(op string, x, y *Decimal) verifExpect {
	if isNaN, e := verifNaNRule(x, y); isNaN {
		return e
	}
	xi, yi := x.Form == Infinite, y.Form == Infinite
	xz, yz := verifIsZero(x), verifIsZero(y)
	xor := x.Negative != y.Negative
	switch op {
	case "add", "sub":
		yneg := y.Negative != (op == "sub")
		switch {
		case xi && yi && x.Negative != yneg:
			return verifInvalid() // Inf - Inf
		case xi:
			return verifExpect{kind: 2, neg: x.Negative}
		case yi:
			return verifExpect{kind: 2, neg: yneg}
		}
	case "mul":
		switch {
		case (xi && yz) || (yi && xz):
			return verifInvalid() // 0 * Inf
		case xi || yi:
			return verifExpect{kind: 2, neg: xor}
		}
	case "quo", "quoint":
		switch {
		case xi && yi:
			return verifInvalid()
		case xi:
			return verifExpect{kind: 2, neg: xor}
		case yi:
			return verifExpect{kind: 3, neg: xor}
		case yz && xz:
			return verifExpect{kind: 1, flags: DivisionUndefined}
		case yz:
			return verifExpect{kind: 2, neg: xor, flags: DivisionByZero}
		}
	case "rem":
		switch {
		case xi:
			return verifInvalid()
		case yi:
			return verifExpect{kind: 4}
		case yz && xz:
			return verifExpect{kind: 1, flags: DivisionUndefined}
		case yz:
			return verifInvalid()
		}
	case "cmp":
		return verifExpect{}
	case "pow":
		switch {
		case xz && yz:
			return verifInvalid() // 0 ** 0
		case yz && !xi:
			return verifExpect{kind: 5} // x ** 0 = 1
		case yz:
			return verifExpect{} // Inf ** 0
		}
		if (xz || xi) && y.Form == Finite {
			// a zero or infinite base with a finite non-zero exponent: the magnitude is 0 or
			// Infinity, and the result is negative exactly when the base is negative and the
			// exponent is an odd integer
			isInt, odd := verifIntegerParity(y)
			neg := x.Negative && isInt && odd
			if x.Negative && !isInt {
				if xi {
					return verifInvalid() // (-Inf) ** non-integer
				}
				return verifExpect{} // (-0) ** non-integer: not spelled out
			}
			big := xi != y.Negative // Inf**(+) and 0**(-) are infinite; Inf**(-) and 0**(+) are zero
			if big {
				return verifExpect{kind: 2, neg: neg}
			}
			return verifExpect{kind: 3, neg: neg}
		}
	}
	return verifExpect{}
}

// verifIntegerParity: is the finite non-zero y an integer, and if so is it odd?
func verifIntegerParity(y *Decimal) (bool, bool) {
	e := verifConcretize(int64(y.Exponent))
	if e > 0 {
		return true, false // a multiple of ten
	}
	var t, q, r BigInt
	verifPow10(&t, -e)
	q.QuoRem(&y.Coeff, &t, &r)
	if r.Sign() != 0 {
		return false, false
	}
	return true, q.Bit(0) == 1
}

func verifUnaryExpect(op string, x *Decimal) verifExpect {
	if isNaN, e := verifNaNRule(x, nil); isNaN {
		return e
	}
	xi := x.Form == Infinite
	xz := verifIsZero(x)
	switch op {
	case "abs":
		if xi {
			return verifExpect{kind: 2}
		}
	case "neg":
		if xi {
			return verifExpect{kind: 2, neg: !x.Negative}
		}
	case "round", "reduce", "rti_value", "rti_exact", "ceil", "floor":
		if xi {
			return verifExpect{kind: 2, neg: x.Negative}
		}
	case "quantize":
		if xi {
			return verifInvalid()
		}
	case "sqrt":
		switch {
		case xi && x.Negative:
			return verifInvalid()
		case xi:
			return verifExpect{kind: 2}
		case xz:
			return verifExpect{kind: 3, neg: x.Negative}
		case x.Negative:
			return verifInvalid() // sqrt of a negative number
		}
	case "cbrt":
		if xz {
			return verifExpect{kind: 3, neg: x.Negative}
		}
		if xi && !x.Negative {
			return verifExpect{kind: 2}
		}
	case "ln", "log10":
		switch {
		case xz:
			return verifExpect{kind: 2, neg: true}
		case x.Negative:
			return verifInvalid() // ln of a negative number (including -Inf)
		case xi:
			return verifExpect{kind: 2}
		}
	case "exp":
		switch {
		case xi && x.Negative:
			return verifExpect{kind: 3}
		case xi:
			return verifExpect{kind: 2}
		case xz:
			return verifExpect{kind: 5}
		}
	}
	return verifExpect{}
}

func verifCheckExpect(tag string, c *Context, e verifExpect, x *Decimal, d *Decimal, res Condition, err error) {
	verifAssert(verifErrSpec(c, res, err), "C03."+tag+".specials_err")
	verifAssert(d.Form == Finite || d.Form == Infinite || d.Form == NaN, "C08."+tag+".form") // never a signaling NaN result
	verifAssert(res&^Condition(0xFFF) == 0, "C02."+tag+".bits")
	if e.kind == 0 {
		return
	}
	verifAssert(res&verifExcFlags == e.flags, "C08."+tag+".flags")
	verifAssert(res&verifExcFlags == e.flags, "C02."+tag+".exception_flags")
	switch e.kind {
	case 1:
		verifAssert(d.Form == NaN, "C08."+tag+".nan")
		if e.nanFrom != nil && d.Form == NaN {
			verifAssert(verifAnd(d.Negative == e.nanFrom.Negative, d.Coeff.Cmp(&e.nanFrom.Coeff) == 0), "C08."+tag+".nanpayload")
			verifAssert(res == e.flags, "C08."+tag+".nanquiet") // nothing but InvalidOperation for sNaN, nothing at all for qNaN
		}
		verifCover(tag + ".nan")
	case 2:
		verifAssert(verifAnd(d.Form == Infinite, d.Negative == e.neg), "C08."+tag+".inf")
		verifCover(tag + ".inf")
	case 3:
		verifAssert(verifAnd(d.Form == Finite, verifAnd(d.Coeff.Sign() == 0, d.Negative == e.neg)), "C08."+tag+".zero")
	case 4:
		verifAssert(verifAnd(d.Form == Finite, verifAnd(d.Negative == x.Negative, verifAnd(d.Exponent == x.Exponent, d.Coeff.Cmp(&x.Coeff) == 0))), "C08."+tag+".passthrough")
	case 5:
		ok := d.Form == Finite && !d.Negative
		if ok {
			// numerically one
			k := verifConcretize(-int64(d.Exponent))
			ok = k >= 0
			if ok {
				var t BigInt
				verifPow10(&t, k)
				ok = d.Coeff.Cmp(&t) == 0
			}
		}
		verifAssert(ok, "C08."+tag+".one")
	}
}

// VerifSpecialBinary: param op in add, sub, mul, quo, quoint, rem, cmp, pow.
func VerifSpecialBinary() {
	c := verifCtx()
	op := verifParamStr("op")
	var x, y, d Decimal
	verifAnyDecimal("x", &x)
	verifAnyDecimal("y", &y)
	special := x.Form != Finite || y.Form != Finite
	if op == "quo" || op == "quoint" || op == "rem" {
		special = special || y.Coeff.Sign() == 0
	}
	if op == "pow" {
		special = special || y.Coeff.Sign() == 0 || x.Coeff.Sign() == 0
		// only the prologue of Pow is in scope: an infinite exponent with a finite non-zero
		// base falls through to the numeric core (cut)
		verifAssume(y.Form != Infinite || verifIsNaN(&x))
	}
	verifAssume(special)
	verifHavoc("d0", &d)
	verifFreezeDecimal(&x, "operand")
	verifFreezeDecimal(&y, "operand")
	verifFreezeContext(c, "context")
	var res Condition
	var err error
	switch op {
	case "add":
		res, err = c.Add(&d, &x, &y)
	case "sub":
		res, err = c.Sub(&d, &x, &y)
	case "mul":
		res, err = c.Mul(&d, &x, &y)
	case "quo":
		res, err = c.Quo(&d, &x, &y)
	case "quoint":
		res, err = c.QuoInteger(&d, &x, &y)
	case "rem":
		res, err = c.Rem(&d, &x, &y)
	case "cmp":
		res, err = c.Cmp(&d, &x, &y)
	case "pow":
		res, err = c.Pow(&d, &x, &y)
	}
	verifCheckFrozen()
	verifObserveOut(op, &d, res, err)
	verifCheckExpect(op, c, verifBinaryExpect(op, &x, &y), &x, &d, res, err)
}

// VerifSpecialUnary: param op in abs, neg, round, reduce, quantize, rti_value, rti_exact,
// ceil, floor, sqrt, cbrt, ln, log10, exp. For the iterative functions only the prologue is
// in scope: operands that would enter the numeric core are excluded.
func VerifSpecialUnary() {
	c := verifCtx()
	op := verifParamStr("op")
	var x, d Decimal
	verifAnyDecimal("x", &x)
	special := x.Form != Finite
	switch op {
	case "sqrt", "cbrt", "ln", "log10", "exp":
		special = special || x.Coeff.Sign() == 0 || ((op == "sqrt" || op == "ln" || op == "log10") && x.Negative)
	}
	verifAssume(special)
	verifHavoc("d0", &d)
	verifFreezeDecimal(&x, "operand")
	verifFreezeContext(c, "context")
	var res Condition
	var err error
	switch op {
	case "abs":
		res, err = c.Abs(&d, &x)
	case "neg":
		res, err = c.Neg(&d, &x)
	case "round":
		res, err = c.Round(&d, &x)
	case "reduce":
		_, res, err = c.Reduce(&d, &x)
	case "quantize":
		res, err = c.Quantize(&d, &x, int32(verifNondetInt("qe", -3, 3)))
	case "rti_value":
		res, err = c.RoundToIntegralValue(&d, &x)
	case "rti_exact":
		res, err = c.RoundToIntegralExact(&d, &x)
	case "ceil":
		res, err = c.Ceil(&d, &x)
	case "floor":
		res, err = c.Floor(&d, &x)
	case "sqrt":
		res, err = c.Sqrt(&d, &x)
	case "cbrt":
		res, err = c.Cbrt(&d, &x)
	case "ln":
		res, err = c.Ln(&d, &x)
	case "log10":
		res, err = c.Log10(&d, &x)
	case "exp":
		res, err = c.Exp(&d, &x)
	}
	verifCheckFrozen()
	verifObserveOut(op, &d, res, err)
	verifCheckExpect(op, c, verifUnaryExpect(op, &x), &x, &d, res, err)
}
