package sym

import (
	"fmt"
	"go/constant"
	"go/token"
	"go/types"
	"math/big"
	"os"
	"sort"
	"strings"
	"sync"
	"sync/atomic"
	"time"

	"golang.org/x/tools/go/ssa"
)

const ApdPath = "github.com/cockroachdb/apd/v3"

// Program is the loaded SSA program plus the concretely interpreted package state.
type Program struct {
	Prog    *ssa.Program
	Pkg     *ssa.Package
	Globals map[*ssa.Global]*Object
	LevelB  bool
}

// Options configure one harness instance.
type Options struct {
	Harness           string
	Params            map[string]string
	Enabled           func(id string) bool // which assertion ids are checked
	Known             map[string]bool      // open known-finding region ids (excluded)
	MaxDecisions      int
	MaxInstr          int64
	MaxDigits         int // largest digit count NumDigits may fork to (unwinding bound)
	MaxPaths          int
	OneShotTimeoutSec int
	Portfolio         bool
	FeasTimeoutMs     int  // timeout of branch-feasibility queries (unknown = keep the branch)
	PathModels        bool // extract one model per completed path (translation validation)
	Solvers           []*Solver
}

type Input struct {
	Name string
	T    *Term
	Kind string // int, bool, big, bits
}

// Finding is a candidate assertion violation (a sat model), before native replay.
type Finding struct {
	ID     string
	Kind   string // assert, panic, write, unwind
	Msg    string
	Inputs map[string]string
	Where  string
}

type Observation struct {
	Name string
	T    *Term
	Kind string
	Str  []*Term
}

// PathResult is what one fully explored path produced.
type PathResult struct {
	Decisions   int
	Instr       int64
	End         string // return, assume, panic, error, known, unwind
	EndMsg      string
	Covers      []string
	Findings    []Finding
	AssertsOK   map[string]int
	AssertsUnk  map[string]int
	Known       []string
	Model       map[string]string // inputs (path model) if requested
	Observed    map[string]string // predicted observation values under Model
	MaybeInfeas bool
	Funcs       map[string]bool
}

type pathStop struct {
	reason string
	msg    string
}

type frame struct {
	fn     *ssa.Function
	locals map[ssa.Value]Value
}

// Exec is the per-path interpreter state.
type Exec struct {
	P           *Program
	Opt         *Options
	S           *Solver
	prefix      []Dec
	pos         int
	trace       []Dec
	pc          []*Term
	inputs      []Input
	obs         []Observation
	objSeq      int
	fresh       int
	instr       int64
	res         *PathResult
	forks       [][]Dec // sibling prefixes discovered on this path
	ndMemo      map[*Term]int64
	digOrigin   map[*Term]digOrigin
	inlMemo     map[string]*Term
	refLo       map[*Term]*big.Int
	refHi       map[*Term]*big.Int
	depth       int
	skip        map[string]int
	model       map[string]*big.Int // a model of the current pc (nil if unknown)
	pcVars      []*Term
	pcVarSet    map[*Term]bool
	pending     []pendingAssert
	flushing    bool
	pcSet       map[*Term]bool
	fixed       map[*Term]*big.Int
	prodMemo    map[*Term]*Term
	divMemo     map[[2]*Term][2]IntV
	mulMemo     map[[2]*Term][2]*Term
	ufMemo      map[string]bigRef
	ufSeq       int
	snaps       []bigSnap
	noFallback  bool
	unknownKept int
	defs        []*Term // defining equations of abstracted products
	initMode    bool
	created     []*Object
	concrete    bool // init mode: no solver, everything must fold
	stack       []string
}

func (ex *Exec) stop(reason, msg string) {
	if reason == "cut_float" && ex.Opt.Params["strictFloat"] == "1" {
		// a float harness must decide every path: float code without a model is an unwinding failure
		reason, msg = "unwind", "float code without a model: "+msg
	}
	if reason != "error" && len(ex.pending) > 0 && !ex.flushing {
		ex.flushing = true
		func() {
			defer func() { recover() }()
			ex.flushAsserts()
		}()
		ex.flushing = false
	}
	panic(pathStop{reason, msg})
}

func (ex *Exec) unsupported(format string, a ...interface{}) {
	where := ""
	if len(ex.stack) > 0 {
		where = " in " + ex.stack[len(ex.stack)-1]
	}
	ex.stop("error", fmt.Sprintf(format, a...)+where)
}

func (ex *Exec) newObject(v Value, name string, t types.Type) *Object {
	ex.objSeq++
	o := &Object{ID: ex.objSeq, V: v, Name: name, Typ: t}
	if ex.concrete {
		ex.created = append(ex.created, o)
	}
	return o
}

func (ex *Exec) freshVar(prefix string, s Sort) *Term {
	ex.fresh++
	sn := "i"
	if s == SBool {
		sn = "b"
	} else if s > 0 {
		sn = fmt.Sprintf("v%d", int(s))
	}
	return Var(fmt.Sprintf("f%s!%s!%d", sn, prefix, ex.fresh), s)
}

// ---------- path condition and decisions ----------

func (ex *Exec) assumeT(t *Term) {
	if t.IsTrue() {
		return
	}
	if t.TreeSize() > 3_000_000 {
		// a term whose printed form explodes (shared sub-terms repeated along a loop): no verdict
		ex.stop("unwind", "term size explosion in the path condition")
	}
	ex.pc = append(ex.pc, t)
	if ex.pcSet == nil {
		ex.pcSet = map[*Term]bool{}
	}
	ex.pcSet[t] = true
	if t.Op == "and" {
		for _, a := range t.Args {
			ex.pcSet[a] = true
		}
	}
	if ex.pcVarSet == nil {
		ex.pcVarSet = map[*Term]bool{}
	}
	vs := map[*Term]bool{}
	t.Vars(vs)
	for v := range vs {
		if !ex.pcVarSet[v] {
			ex.pcVarSet[v] = true
			ex.pcVars = append(ex.pcVars, v)
		}
	}
	if ex.model != nil {
		if val := t.Eval(ex.modelByName()); val == nil || val.Sign() == 0 {
			ex.model = nil
		}
	}
}

// modelByName adapts the cached model (keyed by SMT text of variables) for Term.Eval.
func (ex *Exec) modelByName() map[string]*big.Int { return ex.model }

// checkM is check() that also refreshes the cached model of pc ∧ extra on sat.
func (ex *Exec) checkM(extra *Term) (Result, map[string]*big.Int) {
	vs := map[*Term]bool{}
	extra.Vars(vs)
	want := append([]*Term{}, ex.pcVars...)
	for v := range vs {
		if !ex.pcVarSet[v] {
			want = append(want, v)
		}
	}
	r, m := ex.check(extra, want)
	return r, m
}

func (ex *Exec) check(extra *Term, want []*Term) (Result, map[string]*big.Int) {
	if extra != nil && extra.IsTrue() {
		extra = nil
	}
	t0 := time.Now()
	r, m := ex.S.Check(ex.pc, extra, want)
	if r == Unknown && !ex.noFallback {
		// the incremental core gave up: decide in a fresh, non-incremental process
		sec := ex.Opt.OneShotTimeoutSec
		if sec == 0 {
			sec = 20
		}
		r, m = OneShot(ex.S.Bin, ex.pc, extra, want, sec)
		if r == Unknown && ex.Opt.Portfolio {
			r, m = OneShot("cvc5", ex.pc, extra, want, sec)
		}
		if r != Unknown {
			atomic.AddInt64(&GStats.OneShotDecided, 1)
			atomic.AddInt64(&GStats.UnknownN, -1)
			if r == Sat {
				atomic.AddInt64(&GStats.SatN, 1)
			} else {
				atomic.AddInt64(&GStats.UnsatN, 1)
			}
		}
	}
	if dir := os.Getenv("VERIF_DUMP_UNKNOWN"); dir != "" && r == Unknown {
		ex.dumpQuery(dir, extra)
	}
	if d := time.Since(t0); d > 2*time.Second && os.Getenv("VERIF_SLOWLOG") != "" {
		x := ""
		if extra != nil {
			x = extra.SMT()
			if len(x) > 300 {
				x = x[:300]
			}
		}
		fmt.Printf("SLOW %.1fs %s at %s: %s\n", d.Seconds(), r, ex.where(), x)
	}
	return r, m
}

// Dec is one recorded branch decision; V carries the candidate value of a
// model-guided concretisation step so that replays see the same candidates.
type Dec struct {
	B bool
	V *big.Int
	L string
}

// decide returns the truth value of c on this path, forking when both are feasible.
func (ex *Exec) decide(c *Term) bool { return ex.decideV(c, nil, false) }

func (ex *Exec) decideV(c *Term, v *big.Int, trueKnownSat bool) bool {
	if c.IsConst() {
		return c.IsTrue()
	}
	if ex.concrete {
		ex.unsupported("symbolic branch in concrete mode: %s", c.SMT())
	}
	// syntactically implied by the path condition: no decision, no query
	if ex.pcSet[c] {
		return true
	}
	if ex.pcSet[Not(c)] {
		return false
	}
	if ex.pos < len(ex.prefix) {
		d := ex.prefix[ex.pos].B
		ex.pos++
		// assertions queued here were discharged by the ancestor path at this very point
		for _, p := range ex.pending {
			ex.assumeT(p.c)
		}
		ex.pending = nil
		ex.trace = append(ex.trace, Dec{d, v, ex.prefix[ex.pos-1].L})
		if d {
			ex.assumeT(c)
		} else {
			ex.assumeT(Not(c))
		}
		return d
	}
	if len(ex.trace) >= ex.Opt.MaxDecisions {
		ex.stop("unwind", fmt.Sprintf("decision bound %d reached", ex.Opt.MaxDecisions))
	}
	ex.pos++
	ex.flushAsserts()
	rt, rf := Unknown, Unknown
	var mt, mf map[string]*big.Int
	if trueKnownSat {
		rt = Sat
	}
	if ex.model != nil {
		if val := c.Eval(ex.model); val != nil {
			if val.Sign() != 0 {
				rt, mt = Sat, ex.model
			} else {
				rf, mf = Sat, ex.model
			}
		}
	}
	if rt != Sat {
		ex.S.NextTmo = ex.Opt.FeasTimeoutMs
		ex.noFallback = true
		rt, mt = ex.checkM(c)
		ex.noFallback = false
	}
	if rt == Unsat {
		ForcedSite(ex.where())
		ex.trace = append(ex.trace, Dec{false, v, c.SMT()})
		if mf != nil {
			ex.model = mf
		}
		ex.assumeT(Not(c))
		return false
	}
	if rf != Sat {
		ex.S.NextTmo = ex.Opt.FeasTimeoutMs
		ex.noFallback = true
		rf, mf = ex.checkM(Not(c))
		ex.noFallback = false
	}
	if rf == Unsat {
		ForcedSite(ex.where())
		ex.trace = append(ex.trace, Dec{true, v, c.SMT()})
		ex.model = mt
		ex.assumeT(c)
		return true
	}
	if rt == Unknown || rf == Unknown {
		ex.res.MaybeInfeas = true
		ex.unknownKept++
		if ex.unknownKept > 12 {
			// (typically a loop whose exit the solver cannot decide: without this bound such a
			// path is unrolled to the decision bound in every direction)
			ex.stop("unwind", "more than 12 branch-feasibility queries undecided on one path")
		}
	}
	ex.model = mt
	ForkSite(ex.where())
	sib := append(append([]Dec{}, ex.trace...), Dec{false, v, c.SMT()})
	ex.forks = append(ex.forks, sib)
	ex.trace = append(ex.trace, Dec{true, v, c.SMT()})
	ex.assumeT(c)
	return true
}

// ---------- memory ----------

func getAt(v Value, path []int) Value {
	for _, i := range path {
		switch x := v.(type) {
		case *StructV:
			v = x.F[i]
		case *ArrayV:
			v = x.E[i]
		default:
			panic(fmt.Sprintf("getAt: cannot index %T", v))
		}
	}
	return v
}

func (ex *Exec) load(p PtrV) Value {
	if p.Obj == nil {
		ex.panicEvent("nil pointer dereference")
	}
	return deepCopy(getAt(p.Obj.V, p.Path))
}

func (ex *Exec) store(p PtrV, v Value) {
	if p.Obj == nil {
		ex.panicEvent("nil pointer dereference (store)")
	}
	if p.Obj.Global && !ex.concrete {
		ex.writeEvent(p, "package-level object "+p.Obj.Name)
	}
	if p.Obj.Frozen != "" {
		ex.writeEvent(p, p.Obj.Frozen)
	}
	v = deepCopy(v)
	if len(p.Path) == 0 {
		p.Obj.V = v
		return
	}
	parent := getAt(p.Obj.V, p.Path[:len(p.Path)-1])
	i := p.Path[len(p.Path)-1]
	switch x := parent.(type) {
	case *StructV:
		x.F[i] = v
	case *ArrayV:
		x.E[i] = v
	default:
		panic(fmt.Sprintf("store: cannot index %T", parent))
	}
}

func (ex *Exec) writeEvent(p PtrV, role string) {
	id := "W.write." + role
	if !ex.Opt.Enabled(id) {
		return
	}
	f := Finding{ID: id, Kind: "write", Msg: fmt.Sprintf("store into %s (%s)", p.String(), role), Where: ex.where()}
	if r, m := ex.check(TTrue, ex.inputTerms()); r != Unsat {
		f.Inputs = ex.modelToInputs(m)
		ex.res.Findings = append(ex.res.Findings, f)
		ex.stop("write", f.Msg)
	}
}

func (ex *Exec) where() string {
	if len(ex.stack) == 0 {
		return ""
	}
	n := len(ex.stack)
	lo := n - 4
	if lo < 0 {
		lo = 0
	}
	return strings.Join(ex.stack[lo:], " > ")
}

func (ex *Exec) panicEvent(msg string) {
	id := "P.panic"
	if ex.concrete {
		ex.stop("error", "panic in concrete mode: "+msg)
	}
	if ex.Opt.Enabled(id) {
		f := Finding{ID: id, Kind: "panic", Msg: msg, Where: ex.where()}
		if r, m := ex.check(And(ex.defs...), ex.inputTerms()); r != Unsat {
			f.Inputs = ex.modelToInputs(m)
			ex.res.Findings = append(ex.res.Findings, f)
		}
	}
	ex.stop("panic", msg)
}

// hangEvent: in harnesses that declare an execution bound (param hangcheck=1), exceeding
// the instruction budget is a finding (no return within the bound), replayed natively
// under a watchdog.
func (ex *Exec) hangEvent() {
	if ex.Opt.Params["hangcheck"] != "1" || !ex.Opt.Enabled("C04.hang") {
		return
	}
	f := Finding{ID: "C04.hang", Kind: "hang", Msg: fmt.Sprintf("no return within %d SSA instructions", ex.Opt.MaxInstr), Where: ex.where()}
	if r, m := ex.check(And(ex.defs...), ex.inputTerms()); r != Unsat {
		f.Inputs = ex.modelToInputs(m)
		ex.res.Findings = append(ex.res.Findings, f)
		ex.stop("hang", f.Msg)
	}
}

func (ex *Exec) inputTerms() []*Term {
	ts := make([]*Term, len(ex.inputs))
	for i, in := range ex.inputs {
		ts[i] = in.T
	}
	return ts
}

func (ex *Exec) modelToInputs(m map[string]*big.Int) map[string]string {
	out := map[string]string{}
	for _, in := range ex.inputs {
		if v, ok := m[in.T.SMT()]; ok {
			out[in.Name] = v.String()
		}
	}
	return out
}

// ---------- zero values ----------

func isApdNamed(t types.Type, name string) bool {
	n, ok := t.(*types.Named)
	if !ok {
		return false
	}
	o := n.Obj()
	return o.Name() == name && o.Pkg() != nil && o.Pkg().Path() == ApdPath
}

func (ex *Exec) isScalarBig(t types.Type) bool {
	return !ex.P.LevelB && isApdNamed(t, "BigInt")
}

func (ex *Exec) zero(t types.Type) Value {
	if ex.isScalarBig(t) {
		return ConstInt(0)
	}
	switch u := t.Underlying().(type) {
	case *types.Basic:
		switch {
		case u.Info()&types.IsBoolean != 0:
			return ConstBool(false)
		case u.Info()&types.IsInteger != 0:
			return ConstInt(0)
		case u.Info()&types.IsString != 0:
			return StrV{}
		case u.Info()&types.IsFloat != 0:
			return FloatV{0}
		case u.Kind() == types.UnsafePointer:
			return PtrV{}
		case u.Kind() == types.UntypedNil:
			return PtrV{}
		}
	case *types.Pointer:
		return PtrV{}
	case *types.Slice:
		return SliceV{Nil: true}
	case *types.Struct:
		s := &StructV{F: make([]Value, u.NumFields())}
		for i := 0; i < u.NumFields(); i++ {
			s.F[i] = ex.zero(u.Field(i).Type())
		}
		return s
	case *types.Array:
		a := &ArrayV{E: make([]Value, int(u.Len()))}
		for i := range a.E {
			a.E[i] = ex.zero(u.Elem())
		}
		return a
	case *types.Interface:
		return IfaceV{}
	case *types.Map:
		return &MapV{M: map[string]Value{}, Nil: true}
	case *types.Signature:
		return FuncV{}
	case *types.Chan:
		return OpaqueV{"chan"}
	}
	ex.unsupported("zero value of %s", t)
	return nil
}

type MapV struct {
	M   map[string]Value
	Nil bool
}

// ---------- constants ----------

func (ex *Exec) constValue(c *ssa.Const) Value {
	t := c.Type()
	if c.Value == nil {
		return ex.zero(t)
	}
	switch c.Value.Kind() {
	case constant.Bool:
		return ConstBool(constant.BoolVal(c.Value))
	case constant.String:
		return ConstStr(constant.StringVal(c.Value))
	case constant.Int:
		if isFloat(t) {
			f, _ := constant.Float64Val(c.Value)
			return FloatV{f}
		}
		b, _ := new(big.Int).SetString(c.Value.ExactString(), 10)
		return ConstBig(b)
	case constant.Float:
		if isFloat(t) {
			f, _ := constant.Float64Val(c.Value)
			return FloatV{f}
		}
		f, _ := constant.Float64Val(c.Value)
		return ConstInt(int64(f))
	}
	ex.unsupported("constant %v", c)
	return nil
}

// ---------- calls ----------

type interceptFn func(ex *Exec, args []Value, call *ssa.CallCommon) Value

var intercepts = map[string]interceptFn{}

func (ex *Exec) eval(fr *frame, v ssa.Value) Value {
	switch x := v.(type) {
	case *ssa.Const:
		return ex.constValue(x)
	case *ssa.Global:
		o, ok := ex.P.Globals[x]
		if !ok {
			ex.unsupported("global %s not initialised", x.Name())
		}
		return PtrV{Obj: o}
	case *ssa.Function:
		return FuncV{Fn: x}
	case *ssa.Builtin:
		return x
	}
	val, ok := fr.locals[v]
	if !ok {
		ex.unsupported("unbound ssa value %s (%T) in %s", v.Name(), v, fr.fn.String())
	}
	return val
}

func (ex *Exec) CallFn(fn *ssa.Function, args []Value, bindings []Value) Value {
	name := fn.String()
	if h := ex.lookupIntercept(name); h != nil {
		return h(ex, args, nil)
	}
	if ex.initMode && fn.Name() == "init" && fn.Pkg != nil && fn.Pkg.Pkg.Path() != ApdPath {
		return nil
	}
	if fn.Pkg == nil || fn.Pkg.Pkg.Path() != ApdPath {
		if ex.P.LevelB {
			if h := ex.mathBigStub(name); h != nil {
				return h(ex, args, nil)
			}
		}
		if h := ex.externalStub(name); h != nil {
			return h(ex, args, nil)
		}
		ex.unsupported("call to external function %s without a stub", name)
	}
	if fn.Blocks == nil {
		ex.unsupported("function without body: %s", name)
	}
	if ex.res != nil {
		if ex.res.Funcs == nil {
			ex.res.Funcs = map[string]bool{}
		}
		ex.res.Funcs[name] = true
	}
	ex.depth++
	if ex.depth > 200 {
		ex.stop("unwind", "call depth")
	}
	ex.stack = append(ex.stack, fn.Name())
	defer func() { ex.depth--; ex.stack = ex.stack[:len(ex.stack)-1] }()

	fr := &frame{fn: fn, locals: make(map[ssa.Value]Value, 32)}
	for i, p := range fn.Params {
		fr.locals[p] = args[i]
	}
	for i, fv := range fn.FreeVars {
		fr.locals[fv] = bindings[i]
	}
	b := fn.Blocks[0]
	var prev *ssa.BasicBlock
	for {
		// phis first (simultaneous)
		nphi := 0
		var phivals []Value
		for _, ins := range b.Instrs {
			phi, ok := ins.(*ssa.Phi)
			if !ok {
				break
			}
			nphi++
			idx := -1
			for i, p := range b.Preds {
				if p == prev {
					idx = i
					break
				}
			}
			phivals = append(phivals, ex.eval(fr, phi.Edges[idx]))
		}
		for i := 0; i < nphi; i++ {
			fr.locals[b.Instrs[i].(*ssa.Phi)] = phivals[i]
		}
		var next *ssa.BasicBlock
		for _, ins := range b.Instrs[nphi:] {
			ex.instr++
			if ex.instr > ex.Opt.MaxInstr {
				ex.hangEvent()
				ex.stop("unwind", "instruction budget")
			}
			switch x := ins.(type) {
			case *ssa.If:
				c := ex.eval(fr, x.Cond).(BoolV)
				if ex.decide(c.T) {
					next = b.Succs[0]
				} else {
					next = b.Succs[1]
				}
			case *ssa.Jump:
				next = b.Succs[0]
			case *ssa.Return:
				switch len(x.Results) {
				case 0:
					return nil
				case 1:
					return ex.eval(fr, x.Results[0])
				}
				t := make(TupleV, len(x.Results))
				for i, r := range x.Results {
					t[i] = ex.eval(fr, r)
				}
				return t
			case *ssa.Panic:
				ex.panicEvent("explicit panic in " + fn.Name())
			case *ssa.Store:
				ex.store(ex.eval(fr, x.Addr).(PtrV), ex.eval(fr, x.Val))
			case *ssa.DebugRef:
			case *ssa.RunDefers:
			case *ssa.MapUpdate:
				m := ex.eval(fr, x.Map).(*MapV)
				m.M[ex.mapKey(ex.eval(fr, x.Key))] = ex.eval(fr, x.Value)
			case ssa.Value:
				fr.locals[x] = ex.evalInstr(fr, x)
			default:
				ex.unsupported("instruction %T", ins)
			}
		}
		if next == nil {
			ex.unsupported("block fell through in %s", fn.Name())
		}
		prev, b = b, next
	}
}

func (ex *Exec) mapKey(v Value) string {
	switch x := v.(type) {
	case StrV:
		s, ok := x.Concrete()
		if ok {
			return "s:" + s
		}
	case IntV:
		if x.IsConst() {
			return "i:" + x.Const().String()
		}
	}
	ex.unsupported("symbolic map key")
	return ""
}

func (ex *Exec) evalInstr(fr *frame, ins ssa.Value) Value {
	switch x := ins.(type) {
	case *ssa.Alloc:
		et := x.Type().(*types.Pointer).Elem()
		o := ex.newObject(ex.zero(et), x.Comment, et)
		return PtrV{Obj: o}
	case *ssa.BinOp:
		return ex.binop(x.Op, ex.eval(fr, x.X), ex.eval(fr, x.Y), x.X.Type(), x.Type())
	case *ssa.UnOp:
		return ex.unop(x, ex.eval(fr, x.X))
	case *ssa.Call:
		return ex.doCall(fr, &x.Call)
	case *ssa.ChangeType:
		return ex.eval(fr, x.X)
	case *ssa.ChangeInterface:
		return ex.eval(fr, x.X)
	case *ssa.Convert:
		return ex.convert(ex.eval(fr, x.X), x.X.Type(), x.Type())
	case *ssa.Extract:
		return ex.eval(fr, x.Tuple).(TupleV)[x.Index]
	case *ssa.Field:
		return deepCopy(ex.eval(fr, x.X).(*StructV).F[x.Field])
	case *ssa.FieldAddr:
		p := ex.eval(fr, x.X).(PtrV)
		if p.Obj == nil {
			ex.panicEvent("nil pointer dereference (field " + fmt.Sprint(x.Field) + ")")
		}
		np := make([]int, len(p.Path)+1)
		copy(np, p.Path)
		np[len(p.Path)] = x.Field
		return PtrV{Obj: p.Obj, Path: np}
	case *ssa.IndexAddr:
		base := ex.eval(fr, x.X)
		idx := ex.concretizeIndex(ex.eval(fr, x.Index).(IntV))
		switch b := base.(type) {
		case PtrV: // pointer to array
			if b.Obj == nil {
				ex.panicEvent("nil pointer dereference (index)")
			}
			n := len(getAt(b.Obj.V, b.Path).(*ArrayV).E)
			if idx < 0 || idx >= n {
				ex.panicEvent(fmt.Sprintf("index out of range [%d] with length %d", idx, n))
			}
			np := append(append([]int{}, b.Path...), idx)
			return PtrV{Obj: b.Obj, Path: np}
		case SliceV:
			if idx < 0 || idx >= b.Len {
				ex.panicEvent(fmt.Sprintf("index out of range [%d] with length %d", idx, b.Len))
			}
			np := append(append([]int{}, b.Base...), b.Off+idx)
			return PtrV{Obj: b.Arr, Path: np}
		}
		ex.unsupported("IndexAddr on %T", base)
	case *ssa.Index:
		base := ex.eval(fr, x.X)
		idx := ex.concretizeIndex(ex.eval(fr, x.Index).(IntV))
		switch b := base.(type) {
		case *ArrayV:
			if idx < 0 || idx >= len(b.E) {
				ex.panicEvent("index out of range")
			}
			return deepCopy(b.E[idx])
		case StrV:
			if idx < 0 || idx >= len(b.B) {
				ex.panicEvent("string index out of range")
			}
			return byteVal(b.B[idx])
		}
		ex.unsupported("Index on %T", base)
	case *ssa.Lookup:
		base := ex.eval(fr, x.X)
		switch b := base.(type) {
		case StrV:
			idx := ex.concretizeIndex(ex.eval(fr, x.Index).(IntV))
			if idx < 0 || idx >= len(b.B) {
				ex.panicEvent("string index out of range")
			}
			return byteVal(b.B[idx])
		case *MapV:
			k := ex.mapKey(ex.eval(fr, x.Index))
			v, ok := b.M[k]
			if !ok {
				v = ex.zero(x.X.Type().Underlying().(*types.Map).Elem())
			}
			if x.CommaOk {
				return TupleV{v, ConstBool(ok)}
			}
			return v
		}
		ex.unsupported("Lookup on %T", base)
	case *ssa.Slice:
		return ex.sliceOp(fr, x)
	case *ssa.MakeInterface:
		return IfaceV{Typ: x.X.Type(), V: ex.eval(fr, x.X)}
	case *ssa.MakeSlice:
		n := ex.concretizeIndex(ex.eval(fr, x.Len).(IntV))
		c := ex.concretizeIndex(ex.eval(fr, x.Cap).(IntV))
		et := x.Type().Underlying().(*types.Slice).Elem()
		arr := &ArrayV{E: make([]Value, c)}
		for i := range arr.E {
			arr.E[i] = ex.zero(et)
		}
		o := ex.newObject(arr, "makeslice", nil)
		return SliceV{Arr: o, Len: n, Cap: c}
	case *ssa.MakeMap:
		return &MapV{M: map[string]Value{}}
	case *ssa.MakeClosure:
		bs := make([]Value, len(x.Bindings))
		for i, b := range x.Bindings {
			bs[i] = ex.eval(fr, b)
		}
		return FuncV{Fn: x.Fn.(*ssa.Function), Bindings: bs}
	case *ssa.TypeAssert:
		return ex.typeAssert(x, ex.eval(fr, x.X).(IfaceV))
	case *ssa.Phi:
		ex.unsupported("phi not at block start")
	case *ssa.SliceToArrayPointer:
		s := ex.eval(fr, x.X).(SliceV)
		if s.Off != 0 {
			// model as pointer to the sub-array only when it starts at 0
			ex.unsupported("slice-to-array-pointer with offset")
		}
		return PtrV{Obj: s.Arr, Path: append([]int{}, s.Base...)}
	}
	ex.unsupported("value instruction %T", ins)
	return nil
}

func byteVal(t *Term) IntV {
	if t.IsConst() {
		return IntV{T: t, Lo: t.Val, Hi: t.Val}
	}
	return IntV{T: t, Lo: big.NewInt(0), Hi: big.NewInt(255)}
}

func (ex *Exec) typeAssert(x *ssa.TypeAssert, v IfaceV) Value {
	ok := false
	if v.Typ != nil {
		if _, isIface := x.AssertedType.Underlying().(*types.Interface); isIface {
			ok = types.AssignableTo(v.Typ, x.AssertedType)
		} else {
			ok = types.Identical(v.Typ, x.AssertedType)
		}
	}
	var res Value
	if ok {
		if _, isIface := x.AssertedType.Underlying().(*types.Interface); isIface {
			res = v
		} else {
			res = v.V
		}
	} else {
		if !x.CommaOk {
			ex.panicEvent("interface conversion failed")
		}
		res = ex.zero(x.AssertedType)
	}
	if x.CommaOk {
		return TupleV{res, ConstBool(ok)}
	}
	return res
}

func (ex *Exec) doCall(fr *frame, c *ssa.CallCommon) Value {
	args := make([]Value, 0, len(c.Args)+1)
	if c.IsInvoke() {
		recv := ex.eval(fr, c.Value).(IfaceV)
		if recv.Typ == nil {
			ex.panicEvent("method call on nil interface")
		}
		ms := ex.P.Prog.MethodSets.MethodSet(recv.Typ)
		sel := ms.Lookup(c.Method.Pkg(), c.Method.Name())
		if sel == nil {
			ex.unsupported("no method %s on %s", c.Method.Name(), recv.Typ)
		}
		fn := ex.P.Prog.MethodValue(sel)
		if fn == nil {
			ex.unsupported("abstract method %s on %s", c.Method.Name(), recv.Typ)
		}
		args = append(args, recv.V)
		for _, a := range c.Args {
			args = append(args, ex.eval(fr, a))
		}
		return ex.CallFn(fn, args, nil)
	}
	for _, a := range c.Args {
		args = append(args, ex.eval(fr, a))
	}
	switch f := c.Value.(type) {
	case *ssa.Builtin:
		return ex.builtin(f, args, c)
	case *ssa.Function:
		if h := ex.lookupIntercept(f.String()); h != nil {
			return h(ex, args, c)
		}
		return ex.CallFn(f, args, nil)
	}
	fv, ok := ex.eval(fr, c.Value).(FuncV)
	if !ok || fv.Fn == nil {
		ex.panicEvent("call of nil func")
	}
	return ex.CallFn(fv.Fn, args, fv.Bindings)
}

func (ex *Exec) lookupIntercept(name string) interceptFn {
	if ex.skip != nil && ex.skip[name] > 0 {
		return nil
	}
	if h, ok := intercepts[name]; ok {
		return h
	}
	if !ex.P.LevelB {
		if h, ok := levelAIntercepts[name]; ok {
			return h
		}
	}
	return nil
}

// ---------- builtins ----------

func (ex *Exec) builtin(b *ssa.Builtin, args []Value, c *ssa.CallCommon) Value {
	switch b.Name() {
	case "len":
		switch x := args[0].(type) {
		case StrV:
			return ConstInt(int64(len(x.B)))
		case SliceV:
			return ConstInt(int64(x.Len))
		case *ArrayV:
			return ConstInt(int64(len(x.E)))
		case PtrV:
			return ConstInt(int64(len(getAt(x.Obj.V, x.Path).(*ArrayV).E)))
		case *MapV:
			return ConstInt(int64(len(x.M)))
		}
	case "cap":
		switch x := args[0].(type) {
		case SliceV:
			return ConstInt(int64(x.Cap))
		case *ArrayV:
			return ConstInt(int64(len(x.E)))
		}
	case "append":
		s := args[0].(SliceV)
		var add []Value
		switch y := args[1].(type) {
		case SliceV:
			for i := 0; i < y.Len; i++ {
				add = append(add, deepCopy(getAt(y.Arr.V, append(append([]int{}, y.Base...), y.Off+i))))
			}
		case StrV:
			for _, t := range y.B {
				add = append(add, byteVal(t))
			}
		default:
			ex.unsupported("append arg %T", args[1])
		}
		if len(add) == 0 {
			return s
		}
		if !s.Nil && s.Len+len(add) <= s.Cap {
			for i, v := range add {
				ex.store(PtrV{Obj: s.Arr, Path: append(append([]int{}, s.Base...), s.Off+s.Len+i)}, v)
			}
			s.Len += len(add)
			return s
		}
		ncap := (s.Len + len(add)) * 2
		arr := &ArrayV{E: make([]Value, ncap)}
		et := c.Args[0].Type().Underlying().(*types.Slice).Elem()
		for i := 0; i < ncap; i++ {
			switch {
			case i < s.Len:
				arr.E[i] = deepCopy(getAt(s.Arr.V, append(append([]int{}, s.Base...), s.Off+i)))
			case i < s.Len+len(add):
				arr.E[i] = add[i-s.Len]
			default:
				arr.E[i] = ex.zero(et)
			}
		}
		o := ex.newObject(arr, "append", nil)
		return SliceV{Arr: o, Len: s.Len + len(add), Cap: ncap}
	case "copy":
		dst := args[0].(SliceV)
		n := 0
		switch src := args[1].(type) {
		case SliceV:
			n = min(dst.Len, src.Len)
			vals := make([]Value, n)
			for i := 0; i < n; i++ {
				vals[i] = deepCopy(getAt(src.Arr.V, append(append([]int{}, src.Base...), src.Off+i)))
			}
			for i := 0; i < n; i++ {
				ex.store(PtrV{Obj: dst.Arr, Path: append(append([]int{}, dst.Base...), dst.Off+i)}, vals[i])
			}
		case StrV:
			n = min(dst.Len, len(src.B))
			for i := 0; i < n; i++ {
				ex.store(PtrV{Obj: dst.Arr, Path: append(append([]int{}, dst.Base...), dst.Off+i)}, byteVal(src.B[i]))
			}
		}
		return ConstInt(int64(n))
	case "min", "max":
		a, bb := args[0].(IntV), args[1].(IntV)
		t := c.Args[0].Type()
		lt := ex.binop(token.LSS, a, bb, t, types.Typ[types.Bool]).(BoolV)
		pickA := lt.T
		if b.Name() == "max" {
			pickA = Not(lt.T)
		}
		if pickA.IsConst() {
			if pickA.IsTrue() {
				return a
			}
			return bb
		}
		if ex.decide(pickA) {
			return a
		}
		return bb
	case "print", "println":
		return nil
	}
	ex.unsupported("builtin %s on %T", b.Name(), args[0])
	return nil
}

// ---------- slices ----------

func (ex *Exec) optIndex(fr *frame, v ssa.Value, def int) int {
	if v == nil {
		return def
	}
	return ex.concretizeIndex(ex.eval(fr, v).(IntV))
}

func (ex *Exec) sliceOp(fr *frame, x *ssa.Slice) Value {
	base := ex.eval(fr, x.X)
	switch b := base.(type) {
	case StrV:
		lo := ex.optIndex(fr, x.Low, 0)
		hi := ex.optIndex(fr, x.High, len(b.B))
		if lo < 0 || hi > len(b.B) || lo > hi {
			ex.panicEvent(fmt.Sprintf("slice bounds out of range [%d:%d] with length %d", lo, hi, len(b.B)))
		}
		return StrV{B: b.B[lo:hi]}
	case SliceV:
		lo := ex.optIndex(fr, x.Low, 0)
		hi := ex.optIndex(fr, x.High, b.Len)
		mx := ex.optIndex(fr, x.Max, b.Cap)
		if lo < 0 || hi > b.Cap || lo > hi || mx > b.Cap || hi > mx {
			ex.panicEvent(fmt.Sprintf("slice bounds out of range [%d:%d:%d] with capacity %d", lo, hi, mx, b.Cap))
		}
		if b.Nil {
			return b
		}
		return SliceV{Arr: b.Arr, Base: b.Base, Off: b.Off + lo, Len: hi - lo, Cap: mx - lo}
	case PtrV: // *array
		if b.Obj == nil {
			ex.panicEvent("slice of nil array pointer")
		}
		n := len(getAt(b.Obj.V, b.Path).(*ArrayV).E)
		lo := ex.optIndex(fr, x.Low, 0)
		hi := ex.optIndex(fr, x.High, n)
		mx := ex.optIndex(fr, x.Max, n)
		if lo < 0 || hi > n || lo > hi || mx > n || hi > mx {
			ex.panicEvent("slice bounds out of range (array)")
		}
		return SliceV{Arr: b.Obj, Base: append([]int{}, b.Path...), Off: lo, Len: hi - lo, Cap: mx - lo}
	}
	ex.unsupported("slice of %T", base)
	return nil
}

func (ex *Exec) sliceElems(s SliceV) []Value {
	out := make([]Value, s.Len)
	for i := 0; i < s.Len; i++ {
		out[i] = getAt(s.Arr.V, append(append([]int{}, s.Base...), s.Off+i))
	}
	return out
}

func (ex *Exec) newByteSlice(bs []*Term) SliceV {
	arr := &ArrayV{E: make([]Value, len(bs))}
	for i, t := range bs {
		arr.E[i] = byteVal(t)
	}
	o := ex.newObject(arr, "bytes", nil)
	return SliceV{Arr: o, Len: len(bs), Cap: len(bs)}
}

// concretizeIndex forks until the integer is a concrete value.
func (ex *Exec) concretizeIndex(v IntV) int {
	return int(ex.concretize(v, "index").Int64())
}

func (ex *Exec) concretize(v IntV, what string) *big.Int {
	if v.IsConst() {
		return v.Const()
	}
	t := v.T
	if v.IsBV() {
		t = BV2Nat(v.T)
	}
	if lo, hi := ex.bounds(v); lo != nil && hi != nil && lo.Cmp(hi) == 0 {
		return lo
	}
	if ex.concrete {
		ex.unsupported("concretize in concrete mode")
	}
	if c, ok := ex.fixed[t]; ok {
		return c
	}
	// model-guided enumeration: ask for a value, fork on "t == value"
	for iter := 0; iter < 100000; iter++ {
		var cand *big.Int
		known := false
		if ex.pos < len(ex.prefix) {
			cand = ex.prefix[ex.pos].V
			if cand == nil {
				ex.stop("error", fmt.Sprintf("replay misaligned in concretize(%s) t=%s pos=%d len=%d where=%s entry=%s prev=%s", what, t.SMT(), ex.pos, len(ex.prefix), ex.where(), ex.prefix[ex.pos].L, ex.prefix[ex.pos-1].L))
			}
		} else {
			r, m := ex.check(TTrue, []*Term{t})
			switch r {
			case Unsat:
				ex.stop("assume", "infeasible at concretize")
			case Unknown:
				// candidate from the linear relaxation of the path condition (sound: the
				// candidate is only a guess, the fork below still covers every value)
				var lin []*Term
				for _, a := range ex.pc {
					if !nonlinear(a) {
						lin = append(lin, a)
					}
				}
				r2, m2 := OneShot(ex.S.Bin, lin, nil, []*Term{t}, 10)
				if r2 != Sat {
					ex.stop("unwind", "solver unknown at concretize("+what+")")
				}
				m = m2
			}
			cand = m[t.SMT()]
			if cand == nil {
				raw := ex.S.LastRaw
				if len(raw) > 300 {
					raw = raw[:300]
				}
				ex.stop("error", fmt.Sprintf("no model value at concretize(%s) for %s; solver answered %q", what, t.SMT(), raw))
			}
			known = true
		}
		if ex.decideV(Eq(t, IntConst(cand)), cand, known) {
			if ex.fixed == nil {
				ex.fixed = map[*Term]*big.Int{}
			}
			ex.fixed[t] = cand
			return new(big.Int).Set(cand)
		}
	}
	ex.stop("unwind", "concretize("+what+") did not terminate")
	return nil
}

// bounds returns a sound interval for an Int-encoded value (refined by per-path facts).
func (ex *Exec) bounds(v IntV) (*big.Int, *big.Int) {
	lo, hi := v.Lo, v.Hi
	if v.IsBV() {
		return big.NewInt(0), bvMask(int(v.T.Sort))
	}
	if ex.refLo != nil {
		if r, ok := ex.refLo[v.T]; ok && (lo == nil || r.Cmp(lo) > 0) {
			lo = r
		}
		if r, ok := ex.refHi[v.T]; ok && (hi == nil || r.Cmp(hi) < 0) {
			hi = r
		}
	}
	return lo, hi
}

func (ex *Exec) refine(t *Term, lo, hi *big.Int) {
	if ex.refLo == nil {
		ex.refLo = map[*Term]*big.Int{}
		ex.refHi = map[*Term]*big.Int{}
	}
	if lo != nil {
		if r, ok := ex.refLo[t]; !ok || lo.Cmp(r) > 0 {
			ex.refLo[t] = lo
		}
	}
	if hi != nil {
		if r, ok := ex.refHi[t]; !ok || hi.Cmp(r) < 0 {
			ex.refHi[t] = hi
		}
	}
}

func sortedKeys(m map[string]bool) []string {
	var ks []string
	for k := range m {
		ks = append(ks, k)
	}
	sort.Strings(ks)
	return ks
}

var (
	forkMu    sync.Mutex
	ForkSites = map[string]int{}
)

var ForcedSites = map[string]int{}

func ForcedSite(w string) {
	forkMu.Lock()
	ForcedSites[w]++
	forkMu.Unlock()
}

func ForkSite(w string) {
	forkMu.Lock()
	ForkSites[w]++
	forkMu.Unlock()
}

var dumpSeq int64

func (ex *Exec) dumpQuery(dir string, extra *Term) {
	all := append([]*Term{}, ex.pc...)
	if extra != nil {
		all = append(all, extra)
	}
	vs := map[*Term]bool{}
	for _, t := range all {
		t.Vars(vs)
	}
	var sb strings.Builder
	for v := range vs {
		fmt.Fprintf(&sb, "(declare-const %s %s)\n", v.Name, v.Sort)
	}
	for _, t := range all {
		fmt.Fprintf(&sb, "(assert %s)\n", t.SMT())
	}
	sb.WriteString("(check-sat)\n")
	forkMu.Lock()
	dumpSeq++
	n := dumpSeq
	forkMu.Unlock()
	os.WriteFile(fmt.Sprintf("%s/q%d.smt2", dir, n), []byte(sb.String()), 0o644)
}

// nonlinear reports whether t contains a product of two non-constant terms.
func nonlinear(t *Term) bool {
	if t.Op == "*" && !t.Args[0].IsConst() && !t.Args[1].IsConst() {
		return true
	}
	if (t.Op == "div" || t.Op == "mod") && !t.Args[1].IsConst() {
		return true
	}
	for _, a := range t.Args {
		if nonlinear(a) {
			return true
		}
	}
	return false
}
