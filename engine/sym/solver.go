package sym

import (
	"bufio"
	"fmt"
	"io"
	"math/big"
	"os"
	"os/exec"
	"strings"
	"sync/atomic"
	"time"
)

type Result int

const (
	Unsat Result = iota
	Sat
	Unknown
)

func (r Result) String() string { return [...]string{"unsat", "sat", "unknown"}[r] }

// Stats are global solver statistics (atomic).
type Stats struct {
	Queries, SatN, UnsatN, UnknownN, Errors, OneShots, OneShotDecided, IncompleteModels int64
	NanosInSolver                                                                       int64
}

var GStats Stats

// Solver wraps one long-lived SMT solver process speaking SMT-LIB2 on stdin/stdout.
type Solver struct {
	Bin       string
	Args      []string
	TimeoutMs int
	cmd       *exec.Cmd
	in        io.WriteCloser
	out       *bufio.Reader
	declared  map[string]Sort
	nq        int
	level     int
	sent      int
	seq       int
	LastRaw   string // raw text of the last get-value answer (diagnostics)
	curTmo    int
	NextTmo   int // timeout for the next Check (0 = default)
	LogW      io.Writer
}

func SolverArgs(bin string) []string {
	switch {
	case strings.Contains(bin, "cvc5"):
		return []string{"--incremental", "--lang=smt2", "--produce-models"}
	default:
		return []string{"-in", "-smt2"}
	}
}

func NewSolver(bin string, timeoutMs int) *Solver {
	s := &Solver{Bin: bin, Args: SolverArgs(bin), TimeoutMs: timeoutMs}
	s.start()
	return s
}

func (s *Solver) start() {
	s.cmd = exec.Command(s.Bin, s.Args...)
	in, _ := s.cmd.StdinPipe()
	out, _ := s.cmd.StdoutPipe()
	s.cmd.Stderr = nil
	if err := s.cmd.Start(); err != nil {
		panic(err)
	}
	s.in = in
	s.out = bufio.NewReaderSize(out, 1<<20)
	if dir := os.Getenv("VERIF_SOLVERLOG"); dir != "" && s.LogW == nil {
		f, _ := os.Create(fmt.Sprintf("%s/solver%d.log", dir, atomic.AddInt64(&solverLogSeq, 1)))
		s.LogW = f
	}
	s.declared = map[string]Sort{}
	s.nq = 0
	s.level = 0
	s.sent = 0
	s.curTmo = s.TimeoutMs
	if strings.Contains(s.Bin, "cvc5") {
		fmt.Fprintf(s.in, "(set-option :tlimit-per %d)\n(set-logic ALL)\n", s.TimeoutMs)
	} else {
		fmt.Fprintf(s.in, "(set-option :timeout %d)\n(set-option :produce-models true)\n", s.TimeoutMs)
	}
}

func (s *Solver) Close() {
	if s.cmd != nil {
		s.in.Close()
		done := make(chan struct{})
		go func() { s.cmd.Wait(); close(done) }()
		select {
		case <-done:
		case <-time.After(2 * time.Second):
			s.cmd.Process.Kill()
		}
		s.cmd = nil
	}
}

func (s *Solver) restart() {
	if s.cmd != nil {
		s.cmd.Process.Kill()
		s.cmd.Wait()
	}
	s.start()
}

func (s *Solver) send(str string) {
	if s.LogW != nil {
		io.WriteString(s.LogW, str)
	}
	io.WriteString(s.in, str)
}

var solverLogSeq int64

// readSexp reads one complete s-expression or atom line from the solver.
func (s *Solver) readSexp() (string, error) {
	var sb strings.Builder
	depth := 0
	started := false
	for {
		line, err := s.out.ReadString('\n')
		if err != nil && line == "" {
			return sb.String(), err
		}
		for _, ch := range line {
			if ch == '(' {
				depth++
				started = true
			} else if ch == ')' {
				depth--
			} else if ch != ' ' && ch != '\n' && ch != '\t' && ch != '\r' {
				started = true
			}
		}
		sb.WriteString(line)
		if started && depth <= 0 {
			if s.LogW != nil {
				io.WriteString(s.LogW, ";; <= "+strings.TrimSpace(sb.String())+"\n")
			}
			return strings.TrimSpace(sb.String()), nil
		}
	}
}

func (s *Solver) declare(ts []*Term) {
	vs := map[*Term]bool{}
	for _, t := range ts {
		t.Vars(vs)
	}
	for v := range vs {
		if so, ok := s.declared[v.Name]; ok {
			if so != v.Sort {
				panic("variable redeclared with different sort: " + v.Name)
			}
			continue
		}
		s.declared[v.Name] = v.Sort
		s.send(fmt.Sprintf("(declare-const %s %s)\n", v.Name, v.Sort))
	}
}

// BeginPath starts a fresh assertion scope: the path condition of one path is
// asserted incrementally inside it (SyncPC) and queries push/pop on top.
func (s *Solver) BeginPath() {
	if s.nq > 30000 || s.cmd == nil {
		s.restart()
	}
	if s.level > 0 {
		s.send("(pop 1)\n")
	}
	s.send("(push 1)\n")
	s.level = 1
	s.sent = 0
	s.declared = map[string]Sort{}
}

// roundtrip sends a batch of commands followed by an echo sentinel and returns every
// s-expression the solver printed before the sentinel. (z3 can print an unexpected
// "(error ... canceled)" for a push/pop when a timeout timer fires late; without the sentinel
// the answers would be attributed to the wrong commands from then on.)
func (s *Solver) roundtrip(cmds string) ([]string, error) {
	s.seq++
	tag := fmt.Sprintf("vdone%d", s.seq)
	s.send(cmds + "(echo \"" + tag + "\")\n")
	var out []string
	for {
		x, err := s.readSexp()
		if err != nil {
			return out, err
		}
		if strings.Trim(x, "\"") == tag {
			return out, nil
		}
		out = append(out, x)
	}
}

func hasError(lines []string) bool {
	for _, l := range lines {
		if strings.HasPrefix(l, "(error") {
			return true
		}
	}
	return false
}

// Check decides pc ∧ extra. pc must extend the pc of earlier calls within the same path.
// If want is given, values for those terms are returned on sat.
func (s *Solver) Check(pc []*Term, extra *Term, wantModel []*Term) (Result, map[string]*big.Int) {
	t0 := time.Now()
	defer func() { atomic.AddInt64(&GStats.NanosInSolver, int64(time.Since(t0))) }()
	atomic.AddInt64(&GStats.Queries, 1)
	s.nq++
	res, model := s.checkOnce(pc, extra, wantModel)
	if res == resProtocolError {
		// the solver printed an error (or died): its assertion stack can no longer be trusted.
		// Start a fresh process, re-assert the whole path condition and ask once more.
		atomic.AddInt64(&GStats.Errors, 1)
		s.restart()
		res, model = s.checkOnce(pc, extra, wantModel)
		if res == resProtocolError {
			s.restart()
			res, model = Unknown, nil
		}
	}
	switch res {
	case Sat:
		atomic.AddInt64(&GStats.SatN, 1)
	case Unsat:
		atomic.AddInt64(&GStats.UnsatN, 1)
	default:
		atomic.AddInt64(&GStats.UnknownN, 1)
	}
	return res, model
}

const resProtocolError Result = 99

func (s *Solver) checkOnce(pc []*Term, extra *Term, wantModel []*Term) (Result, map[string]*big.Int) {
	if s.level == 0 {
		s.BeginPath()
	}
	if s.sent > len(pc) {
		panic("solver: path condition shrank within a path")
	}
	var sb strings.Builder
	newTerms := append([]*Term{}, pc[s.sent:]...)
	if extra != nil {
		newTerms = append(newTerms, extra)
	}
	newTerms = append(newTerms, wantModel...)
	s.declare(newTerms)
	for _, a := range pc[s.sent:] {
		sb.WriteString("(assert ")
		sb.WriteString(a.SMT())
		sb.WriteString(")\n")
	}
	s.sent = len(pc)
	tmo := s.TimeoutMs
	if s.NextTmo > 0 {
		tmo = s.NextTmo
		s.NextTmo = 0
	}
	if tmo != s.curTmo && !strings.Contains(s.Bin, "cvc5") {
		fmt.Fprintf(&sb, "(set-option :timeout %d)\n", tmo)
		s.curTmo = tmo
	}
	sb.WriteString("(push 1)\n")
	if extra != nil {
		sb.WriteString("(assert ")
		sb.WriteString(extra.SMT())
		sb.WriteString(")\n")
	}
	sb.WriteString("(check-sat)\n")
	if len(wantModel) == 0 {
		sb.WriteString("(pop 1)\n")
	}
	lines, err := s.roundtrip(sb.String())
	if err != nil || hasError(lines) {
		return resProtocolError, nil
	}
	res := Unknown
	for _, l := range lines {
		switch l {
		case "sat":
			res = Sat
		case "unsat":
			res = Unsat
		}
	}
	if len(wantModel) == 0 {
		return res, nil
	}
	var model map[string]*big.Int
	var gv strings.Builder
	if res == Sat {
		gv.WriteString("(get-value (")
		for _, t := range wantModel {
			gv.WriteString(t.SMT())
			gv.WriteByte(' ')
		}
		gv.WriteString("))\n")
	}
	gv.WriteString("(pop 1)\n")
	lines, err = s.roundtrip(gv.String())
	if err != nil || hasError(lines) {
		return resProtocolError, nil
	}
	if res == Sat {
		for _, l := range lines {
			if strings.HasPrefix(l, "((") {
				s.LastRaw = l
				model = parseModel(l, wantModel)
			}
		}
		if model == nil {
			return Unknown, nil
		}
	}
	return res, model
}

// parseModel parses "((t1 v1) (t2 v2) ...)" in order of the requested terms.
func parseModel(out string, want []*Term) map[string]*big.Int {
	toks := tokenize(out)
	pos := 0
	var parse func() interface{}
	parse = func() interface{} {
		if toks[pos] == "(" {
			pos++
			var l []interface{}
			for toks[pos] != ")" {
				l = append(l, parse())
			}
			pos++
			return l
		}
		t := toks[pos]
		pos++
		return t
	}
	root, ok := parse().([]interface{})
	m := map[string]*big.Int{}
	if !ok {
		return m
	}
	for i, e := range root {
		pair, ok := e.([]interface{})
		if !ok || len(pair) != 2 || i >= len(want) {
			continue
		}
		v := sexpValue(pair[1])
		if v != nil {
			m[want[i].SMT()] = v
		}
	}
	return m
}

func tokenize(s string) []string {
	var toks []string
	cur := strings.Builder{}
	flush := func() {
		if cur.Len() > 0 {
			toks = append(toks, cur.String())
			cur.Reset()
		}
	}
	for _, ch := range s {
		switch ch {
		case '(', ')':
			flush()
			toks = append(toks, string(ch))
		case ' ', '\n', '\t', '\r':
			flush()
		default:
			cur.WriteRune(ch)
		}
	}
	flush()
	return toks
}

func sexpValue(e interface{}) *big.Int {
	switch x := e.(type) {
	case string:
		switch {
		case x == "true":
			return big.NewInt(1)
		case x == "false":
			return big.NewInt(0)
		case strings.HasPrefix(x, "#x"):
			v, _ := new(big.Int).SetString(x[2:], 16)
			return v
		case strings.HasPrefix(x, "#b"):
			v, _ := new(big.Int).SetString(x[2:], 2)
			return v
		default:
			v, ok := new(big.Int).SetString(x, 10)
			if ok {
				return v
			}
			return nil
		}
	case []interface{}:
		if len(x) == 2 {
			if op, ok := x[0].(string); ok && op == "-" {
				v := sexpValue(x[1])
				if v != nil {
					return new(big.Int).Neg(v)
				}
			}
		}
		if len(x) == 3 {
			if op, ok := x[0].(string); ok && op == "_" {
				if s, ok := x[1].(string); ok && strings.HasPrefix(s, "bv") {
					v, _ := new(big.Int).SetString(s[2:], 10)
					return v
				}
			}
		}
	}
	return nil
}

// OneShot decides pc ∧ extra in a fresh solver process (non-incremental mode: z3 applies
// its full preprocessing and the nlsat-based tactic, which the incremental core does not).
func OneShot(bin string, pc []*Term, extra *Term, wantModel []*Term, timeoutSec int) (Result, map[string]*big.Int) {
	t0 := time.Now()
	defer func() { atomic.AddInt64(&GStats.NanosInSolver, int64(time.Since(t0))) }()
	atomic.AddInt64(&GStats.OneShots, 1)
	all := append([]*Term{}, pc...)
	if extra != nil {
		all = append(all, extra)
	}
	vs := map[*Term]bool{}
	for _, t := range all {
		t.Vars(vs)
	}
	for _, t := range wantModel {
		t.Vars(vs)
	}
	var sb strings.Builder
	if strings.Contains(bin, "cvc5") {
		sb.WriteString("(set-logic ALL)\n")
	}
	sb.WriteString("(set-option :produce-models true)\n")
	for v := range vs {
		fmt.Fprintf(&sb, "(declare-const %s %s)\n", v.Name, v.Sort)
	}
	for _, t := range all {
		fmt.Fprintf(&sb, "(assert %s)\n", t.SMT())
	}
	sb.WriteString("(check-sat)\n")
	if len(wantModel) > 0 {
		sb.WriteString("(get-value (")
		for _, t := range wantModel {
			sb.WriteString(t.SMT())
			sb.WriteByte(' ')
		}
		sb.WriteString("))\n")
	}
	var args []string
	if strings.Contains(bin, "cvc5") {
		args = []string{"--lang=smt2", fmt.Sprintf("--tlimit=%d", timeoutSec*1000), "--produce-models"}
	} else {
		args = []string{"-in", "-smt2", fmt.Sprintf("-T:%d", timeoutSec)}
	}
	cmd := exec.Command(bin, args...)
	cmd.Stdin = strings.NewReader(sb.String())
	out, _ := cmd.Output()
	text := strings.TrimSpace(string(out))
	switch {
	case strings.HasPrefix(text, "unsat"):
		return Unsat, nil
	case strings.HasPrefix(text, "sat"):
		rest := strings.TrimSpace(text[3:])
		if len(wantModel) == 0 {
			return Sat, nil
		}
		if strings.HasPrefix(rest, "(error") || rest == "" {
			return Unknown, nil
		}
		return Sat, parseModel(rest, wantModel)
	}
	return Unknown, nil
}
