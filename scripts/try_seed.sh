#!/bin/bash
# try_seed.sh <seed-dir> <property> [tier]: applies the seeded change to /repo, runs the property's
# check, reverts. Prints the verdict line.
seed=$1; prop=$2; tier=${3:-quick}
cd /verif
git -C /repo apply $seed/patch.diff || { echo "APPLY-FAILED $seed"; exit 2; }
# the evidence file of a run on a mutated tree must not replace the one from the unchanged tree
cp evidence/$prop.json /tmp/evidence_backup_$prop.json 2>/dev/null
start=$(date +%s)
./bin/vcheck run $prop --tier $tier > /tmp/try_$(basename $seed)_$prop.log 2>&1
rc=$?
end=$(date +%s)
git -C /repo checkout -- .
cp /tmp/evidence_backup_$prop.json evidence/$prop.json 2>/dev/null
echo "$(basename $seed) on $prop ($tier): exit=$rc in $((end-start))s : $(grep -m2 'VIOLATION\|UNDECIDED' /tmp/try_$(basename $seed)_$prop.log | cut -c1-160 | tr '\n' '|')"
