// Package sym is a bounded symbolic executor for Go SSA that emits SMT-LIB2.
package sym

import (
	"fmt"
	"math/big"
	"strings"
	"sync"
	"sync/atomic"
)

// Sort of an SMT term. 0 = Bool, -1 = Int, w>0 = (_ BitVec w).
type Sort int

const (
	SBool Sort = 0
	SInt  Sort = -1
)

func (s Sort) String() string {
	switch {
	case s == SBool:
		return "Bool"
	case s == SInt:
		return "Int"
	}
	return fmt.Sprintf("(_ BitVec %d)", int(s))
}

// Term is a hash-consed SMT term.
type Term struct {
	Op   string
	Args []*Term
	Sort Sort
	Val  *big.Int // for const Int/BV; for Bool const: 0/1
	Name string   // for var
	P1   int      // extra params (extract hi / extend amount)
	P2   int
	key  string
	smt  string
	id   int
	size int64 // size of the term printed as a tree (the DAG is shared, the SMT text is not)
}

var (
	termMu    sync.Mutex
	termTable = map[string]*Term{}
	termSeq   int
)

func intern(t *Term) *Term {
	var sb strings.Builder
	sb.WriteString(t.Op)
	sb.WriteByte('|')
	fmt.Fprintf(&sb, "%d|", int(t.Sort))
	if t.Val != nil {
		sb.WriteString(t.Val.String())
	}
	sb.WriteByte('|')
	sb.WriteString(t.Name)
	fmt.Fprintf(&sb, "|%d|%d", t.P1, t.P2)
	termMu.Lock()
	defer termMu.Unlock()
	for _, a := range t.Args {
		fmt.Fprintf(&sb, ",%d", a.id)
	}
	k := sb.String()
	if o, ok := termTable[k]; ok {
		return o
	}
	termSeq++
	t.id = termSeq
	t.key = k
	t.size = 1
	for _, a := range t.Args {
		t.size += a.size
		if t.size > 1<<50 {
			t.size = 1 << 50
		}
	}
	termTable[k] = t
	return t
}

var (
	bigZero = big.NewInt(0)
	bigOneI = big.NewInt(1)
	TTrue   = intern(&Term{Op: "const", Sort: SBool, Val: big.NewInt(1)})
	TFalse  = intern(&Term{Op: "const", Sort: SBool, Val: big.NewInt(0)})
)

func (t *Term) IsConst() bool { return t.Op == "const" }

// TreeSize is the number of nodes of the term printed as a tree.
func (t *Term) TreeSize() int64 { return t.size }
func (t *Term) IsTrue() bool    { return t == TTrue }
func (t *Term) IsFalse() bool   { return t == TFalse }

func BoolConst(b bool) *Term {
	if b {
		return TTrue
	}
	return TFalse
}

func IntConst(v *big.Int) *Term {
	if v.BitLen() > 62 {
		// large constants are not hash-consed (building their keys would dominate the
		// concrete interpretation of the iterative functions); constants are compared by value
		return &Term{Op: "const", Sort: SInt, Val: new(big.Int).Set(v), id: int(atomic.AddInt64(&bigConstSeq, 1)) + 1<<40}
	}
	return intern(&Term{Op: "const", Sort: SInt, Val: new(big.Int).Set(v)})
}

var bigConstSeq int64

func IntConst64(v int64) *Term { return IntConst(big.NewInt(v)) }

func BVConst(w int, v *big.Int) *Term {
	m := new(big.Int).Lsh(bigOneI, uint(w))
	x := new(big.Int).Mod(v, m)
	return intern(&Term{Op: "const", Sort: Sort(w), Val: x})
}

func Var(name string, s Sort) *Term {
	return intern(&Term{Op: "var", Sort: s, Name: name})
}

func mk(op string, s Sort, args ...*Term) *Term {
	return intern(&Term{Op: op, Sort: s, Args: args})
}

// ---------- Bool ----------

func Not(a *Term) *Term {
	if a.IsConst() {
		return BoolConst(a.Val.Sign() == 0)
	}
	if a.Op == "not" {
		return a.Args[0]
	}
	return mk("not", SBool, a)
}

func And(as ...*Term) *Term {
	var out []*Term
	for _, a := range as {
		if a.IsFalse() {
			return TFalse
		}
		if a.IsTrue() {
			continue
		}
		if a.Op == "and" {
			out = append(out, a.Args...)
		} else {
			out = append(out, a)
		}
	}
	if len(out) == 0 {
		return TTrue
	}
	if len(out) == 1 {
		return out[0]
	}
	return mk("and", SBool, out...)
}

func Or(as ...*Term) *Term {
	var out []*Term
	for _, a := range as {
		if a.IsTrue() {
			return TTrue
		}
		if a.IsFalse() {
			continue
		}
		if a.Op == "or" {
			out = append(out, a.Args...)
		} else {
			out = append(out, a)
		}
	}
	if len(out) == 0 {
		return TFalse
	}
	if len(out) == 1 {
		return out[0]
	}
	return mk("or", SBool, out...)
}

func Implies(a, b *Term) *Term { return Or(Not(a), b) }

func Ite(c, a, b *Term) *Term {
	if c.IsTrue() {
		return a
	}
	if c.IsFalse() {
		return b
	}
	if a == b {
		return a
	}
	if a.Sort == SBool {
		if a.IsTrue() && b.IsFalse() {
			return c
		}
		if a.IsFalse() && b.IsTrue() {
			return Not(c)
		}
	}
	return mk("ite", a.Sort, c, a, b)
}

func Eq(a, b *Term) *Term {
	if a == b {
		return TTrue
	}
	if a.Sort != b.Sort {
		panic(fmt.Sprintf("Eq sort mismatch %v %v: %s %s", a.Sort, b.Sort, a.SMT(), b.SMT()))
	}
	if a.IsConst() && b.IsConst() {
		return BoolConst(a.Val.Cmp(b.Val) == 0)
	}
	if a.Sort == SBool {
		if a.IsConst() {
			if a.IsTrue() {
				return b
			}
			return Not(b)
		}
		if b.IsConst() {
			if b.IsTrue() {
				return a
			}
			return Not(a)
		}
	}
	if a.id > b.id {
		a, b = b, a
	}
	return mk("=", SBool, a, b)
}

// ---------- Int ----------

func Add(a, b *Term) *Term {
	if a.IsConst() && b.IsConst() {
		return IntConst(new(big.Int).Add(a.Val, b.Val))
	}
	if a.IsConst() && a.Val.Sign() == 0 {
		return b
	}
	if b.IsConst() && b.Val.Sign() == 0 {
		return a
	}
	// (x + c1) + c2
	if b.IsConst() && a.Op == "+" && len(a.Args) == 2 && a.Args[1].IsConst() {
		return Add(a.Args[0], IntConst(new(big.Int).Add(a.Args[1].Val, b.Val)))
	}
	if a.IsConst() {
		a, b = b, a
	}
	return mk("+", SInt, a, b)
}

func Sub(a, b *Term) *Term {
	if a.IsConst() && b.IsConst() {
		return IntConst(new(big.Int).Sub(a.Val, b.Val))
	}
	if b.IsConst() {
		return Add(a, IntConst(new(big.Int).Neg(b.Val)))
	}
	if a == b {
		return IntConst64(0)
	}
	return mk("-", SInt, a, b)
}

func Neg(a *Term) *Term {
	if a.IsConst() {
		return IntConst(new(big.Int).Neg(a.Val))
	}
	if a.Op == "neg" {
		return a.Args[0]
	}
	return mk("neg", SInt, a)
}

func Mul(a, b *Term) *Term {
	if a.IsConst() && b.IsConst() {
		return IntConst(new(big.Int).Mul(a.Val, b.Val))
	}
	if a.IsConst() {
		a, b = b, a
	}
	if b.IsConst() {
		if b.Val.Sign() == 0 {
			return b
		}
		if b.Val.Cmp(bigOneI) == 0 {
			return a
		}
		// (x * c1) * c2
		if a.Op == "*" && a.Args[1].IsConst() {
			return Mul(a.Args[0], IntConst(new(big.Int).Mul(a.Args[1].Val, b.Val)))
		}
		return mk("*", SInt, a, b)
	}
	if a.id > b.id {
		a, b = b, a
	}
	return mk("*", SInt, a, b)
}

// FDiv is SMT-LIB floor-ish `div` (for positive divisor: floor).
func FDiv(a, b *Term) *Term {
	if a.IsConst() && b.IsConst() && b.Val.Sign() != 0 {
		q, _ := smtDivMod(a.Val, b.Val)
		return IntConst(q)
	}
	if b.IsConst() && b.Val.Cmp(bigOneI) == 0 {
		return a
	}
	return mk("div", SInt, a, b)
}

func FMod(a, b *Term) *Term {
	if a.IsConst() && b.IsConst() && b.Val.Sign() != 0 {
		_, m := smtDivMod(a.Val, b.Val)
		return IntConst(m)
	}
	if b.IsConst() && b.Val.Cmp(bigOneI) == 0 {
		return IntConst64(0)
	}
	return mk("mod", SInt, a, b)
}

// smtDivMod implements SMT-LIB integer div/mod: a = b*q + r, 0 <= r < |b|.
func smtDivMod(a, b *big.Int) (*big.Int, *big.Int) {
	q, r := new(big.Int), new(big.Int)
	q.DivMod(a, b, r) // Euclidean: exactly SMT-LIB semantics
	return q, r
}

func Le(a, b *Term) *Term {
	if a.IsConst() && b.IsConst() {
		return BoolConst(a.Val.Cmp(b.Val) <= 0)
	}
	if a == b {
		return TTrue
	}
	return mk("<=", SBool, a, b)
}
func Lt(a, b *Term) *Term {
	if a.IsConst() && b.IsConst() {
		return BoolConst(a.Val.Cmp(b.Val) < 0)
	}
	if a == b {
		return TFalse
	}
	return mk("<", SBool, a, b)
}
func Ge(a, b *Term) *Term { return Le(b, a) }
func Gt(a, b *Term) *Term { return Lt(b, a) }

func Abs(a *Term) *Term {
	if a.IsConst() {
		return IntConst(new(big.Int).Abs(a.Val))
	}
	return mk("abs", SInt, a)
}

// ---------- BitVec ----------

func bvMask(w int) *big.Int {
	m := new(big.Int).Lsh(bigOneI, uint(w))
	return m.Sub(m, bigOneI)
}

func toSigned(w int, v *big.Int) *big.Int {
	half := new(big.Int).Lsh(bigOneI, uint(w-1))
	if v.Cmp(half) >= 0 {
		return new(big.Int).Sub(v, new(big.Int).Lsh(bigOneI, uint(w)))
	}
	return new(big.Int).Set(v)
}

func BVBin(op string, a, b *Term) *Term {
	if a.Sort != b.Sort {
		panic(fmt.Sprintf("bv sort mismatch %s: %v %v", op, a.Sort, b.Sort))
	}
	w := int(a.Sort)
	if a.IsConst() && b.IsConst() {
		x, y := a.Val, b.Val
		r := new(big.Int)
		switch op {
		case "bvand":
			r.And(x, y)
		case "bvor":
			r.Or(x, y)
		case "bvxor":
			r.Xor(x, y)
		case "bvadd":
			r.Add(x, y)
		case "bvsub":
			r.Sub(x, y)
		case "bvmul":
			r.Mul(x, y)
		case "bvudiv":
			if y.Sign() == 0 {
				r.Set(bvMask(w))
			} else {
				r.Quo(x, y)
			}
		case "bvurem":
			if y.Sign() == 0 {
				r.Set(x)
			} else {
				r.Rem(x, y)
			}
		case "bvshl":
			if y.Cmp(big.NewInt(int64(w))) >= 0 {
				r.SetInt64(0)
			} else {
				r.Lsh(x, uint(y.Int64()))
			}
		case "bvlshr":
			if y.Cmp(big.NewInt(int64(w))) >= 0 {
				r.SetInt64(0)
			} else {
				r.Rsh(x, uint(y.Int64()))
			}
		case "bvashr":
			sx := toSigned(w, x)
			if y.Cmp(big.NewInt(int64(w))) >= 0 {
				if sx.Sign() < 0 {
					r.SetInt64(-1)
				}
			} else {
				r.Rsh(sx, uint(y.Int64()))
			}
		case "bvsdiv":
			sx, sy := toSigned(w, x), toSigned(w, y)
			if sy.Sign() == 0 {
				if sx.Sign() < 0 {
					r.SetInt64(1)
				} else {
					r.SetInt64(-1)
				}
			} else {
				r.Quo(sx, sy)
			}
		case "bvsrem":
			sx, sy := toSigned(w, x), toSigned(w, y)
			if sy.Sign() == 0 {
				r.Set(sx)
			} else {
				r.Rem(sx, sy)
			}
		default:
			panic("bv op " + op)
		}
		return BVConst(w, r)
	}
	switch op {
	case "bvand":
		if a.IsConst() && a.Val.Sign() == 0 {
			return a
		}
		if b.IsConst() && b.Val.Sign() == 0 {
			return b
		}
		if a == b {
			return a
		}
	case "bvor", "bvxor", "bvadd":
		if a.IsConst() && a.Val.Sign() == 0 {
			return b
		}
		if b.IsConst() && b.Val.Sign() == 0 {
			return a
		}
	case "bvsub":
		if b.IsConst() && b.Val.Sign() == 0 {
			return a
		}
	}
	return mk(op, a.Sort, a, b)
}

func BVNot(a *Term) *Term {
	w := int(a.Sort)
	if a.IsConst() {
		return BVConst(w, new(big.Int).Xor(a.Val, bvMask(w)))
	}
	return mk("bvnot", a.Sort, a)
}

func BVNeg(a *Term) *Term {
	w := int(a.Sort)
	if a.IsConst() {
		return BVConst(w, new(big.Int).Neg(a.Val))
	}
	return mk("bvneg", a.Sort, a)
}

func BVCmp(op string, a, b *Term) *Term {
	w := int(a.Sort)
	if a.IsConst() && b.IsConst() {
		x, y := a.Val, b.Val
		if op[2] == 's' {
			x, y = toSigned(w, x), toSigned(w, y)
		}
		c := x.Cmp(y)
		switch op[3:] {
		case "lt":
			return BoolConst(c < 0)
		case "le":
			return BoolConst(c <= 0)
		case "gt":
			return BoolConst(c > 0)
		case "ge":
			return BoolConst(c >= 0)
		}
	}
	return mk(op, SBool, a, b)
}

func BVExtract(hi, lo int, a *Term) *Term {
	if a.IsConst() {
		v := new(big.Int).Rsh(a.Val, uint(lo))
		return BVConst(hi-lo+1, v)
	}
	if lo == 0 && hi == int(a.Sort)-1 {
		return a
	}
	return intern(&Term{Op: "extract", Sort: Sort(hi - lo + 1), Args: []*Term{a}, P1: hi, P2: lo})
}

func BVZeroExt(n int, a *Term) *Term {
	if n == 0 {
		return a
	}
	if a.IsConst() {
		return BVConst(int(a.Sort)+n, a.Val)
	}
	return intern(&Term{Op: "zero_extend", Sort: Sort(int(a.Sort) + n), Args: []*Term{a}, P1: n})
}

func BVSignExt(n int, a *Term) *Term {
	if n == 0 {
		return a
	}
	if a.IsConst() {
		return BVConst(int(a.Sort)+n, toSigned(int(a.Sort), a.Val))
	}
	return intern(&Term{Op: "sign_extend", Sort: Sort(int(a.Sort) + n), Args: []*Term{a}, P1: n})
}

func BVConcat(a, b *Term) *Term {
	if a.IsConst() && b.IsConst() {
		v := new(big.Int).Lsh(a.Val, uint(int(b.Sort)))
		v.Or(v, b.Val)
		return BVConst(int(a.Sort)+int(b.Sort), v)
	}
	return mk("concat", Sort(int(a.Sort)+int(b.Sort)), a, b)
}

// BV2Nat converts a bit-vector to a non-negative Int.
func BV2Nat(a *Term) *Term {
	if a.IsConst() {
		return IntConst(a.Val)
	}
	return mk("bv2nat", SInt, a)
}

// Int2BV converts an Int to a bit-vector (mod 2^w).
func Int2BV(w int, a *Term) *Term {
	if a.IsConst() {
		return BVConst(w, a.Val)
	}
	if a.Op == "bv2nat" && int(a.Args[0].Sort) == w {
		return a.Args[0]
	}
	return intern(&Term{Op: "int2bv", Sort: Sort(w), Args: []*Term{a}, P1: w})
}

// ---------- printing ----------

func (t *Term) SMT() string {
	if t.smt != "" {
		return t.smt
	}
	var s string
	switch t.Op {
	case "const":
		switch {
		case t.Sort == SBool:
			if t.Val.Sign() != 0 {
				s = "true"
			} else {
				s = "false"
			}
		case t.Sort == SInt:
			if t.Val.Sign() < 0 {
				s = "(- " + new(big.Int).Neg(t.Val).String() + ")"
			} else {
				s = t.Val.String()
			}
		default:
			s = fmt.Sprintf("(_ bv%s %d)", t.Val.String(), int(t.Sort))
		}
	case "var":
		s = t.Name
	case "neg":
		s = "(- " + t.Args[0].SMT() + ")"
	case "extract":
		s = fmt.Sprintf("((_ extract %d %d) %s)", t.P1, t.P2, t.Args[0].SMT())
	case "zero_extend", "sign_extend":
		s = fmt.Sprintf("((_ %s %d) %s)", t.Op, t.P1, t.Args[0].SMT())
	case "int2bv":
		s = fmt.Sprintf("((_ int2bv %d) %s)", t.P1, t.Args[0].SMT())
	default:
		var sb strings.Builder
		sb.WriteByte('(')
		sb.WriteString(t.Op)
		for _, a := range t.Args {
			sb.WriteByte(' ')
			sb.WriteString(a.SMT())
		}
		sb.WriteByte(')')
		s = sb.String()
	}
	// Caching is racy but idempotent; guard with the intern mutex.
	termMu.Lock()
	t.smt = s
	termMu.Unlock()
	return s
}

// Vars collects the free variables of t into m.
func (t *Term) Vars(m map[*Term]bool) {
	if t.Op == "var" {
		m[t] = true
		return
	}
	for _, a := range t.Args {
		a.Vars(m)
	}
}

// Eval evaluates t under a model (var name -> value). Returns nil if a variable is missing.
func (t *Term) Eval(model map[string]*big.Int) *big.Int {
	switch t.Op {
	case "const":
		return t.Val
	case "var":
		if v, ok := model[t.Name]; ok {
			return v
		}
		return nil
	}
	vals := make([]*big.Int, len(t.Args))
	for i, a := range t.Args {
		vals[i] = a.Eval(model)
		if vals[i] == nil {
			return nil
		}
	}
	b2i := func(b bool) *big.Int {
		if b {
			return big.NewInt(1)
		}
		return big.NewInt(0)
	}
	switch t.Op {
	case "not":
		return b2i(vals[0].Sign() == 0)
	case "and":
		for _, v := range vals {
			if v.Sign() == 0 {
				return b2i(false)
			}
		}
		return b2i(true)
	case "or":
		for _, v := range vals {
			if v.Sign() != 0 {
				return b2i(true)
			}
		}
		return b2i(false)
	case "ite":
		if vals[0].Sign() != 0 {
			return vals[1]
		}
		return vals[2]
	case "=":
		return b2i(vals[0].Cmp(vals[1]) == 0)
	case "+":
		return new(big.Int).Add(vals[0], vals[1])
	case "-":
		return new(big.Int).Sub(vals[0], vals[1])
	case "neg":
		return new(big.Int).Neg(vals[0])
	case "*":
		return new(big.Int).Mul(vals[0], vals[1])
	case "div":
		if vals[1].Sign() == 0 {
			return nil
		}
		q, _ := smtDivMod(vals[0], vals[1])
		return q
	case "mod":
		if vals[1].Sign() == 0 {
			return nil
		}
		_, m := smtDivMod(vals[0], vals[1])
		return m
	case "abs":
		return new(big.Int).Abs(vals[0])
	case "<=":
		return b2i(vals[0].Cmp(vals[1]) <= 0)
	case "<":
		return b2i(vals[0].Cmp(vals[1]) < 0)
	case "bv2nat":
		return vals[0]
	case "int2bv":
		return new(big.Int).And(new(big.Int).Mod(vals[0], new(big.Int).Lsh(bigOneI, uint(t.P1))), bvMask(t.P1))
	case "extract":
		return BVExtract(t.P1, t.P2, BVConst(int(t.Args[0].Sort), vals[0])).Val
	case "zero_extend":
		return vals[0]
	case "sign_extend":
		return BVSignExt(t.P1, BVConst(int(t.Args[0].Sort), vals[0])).Val
	case "concat":
		return BVConcat(BVConst(int(t.Args[0].Sort), vals[0]), BVConst(int(t.Args[1].Sort), vals[1])).Val
	case "bvnot":
		return BVNot(BVConst(int(t.Sort), vals[0])).Val
	case "bvneg":
		return BVNeg(BVConst(int(t.Sort), vals[0])).Val
	}
	if strings.HasPrefix(t.Op, "bv") {
		a := BVConst(int(t.Args[0].Sort), vals[0])
		b := BVConst(int(t.Args[1].Sort), vals[1])
		if t.Sort == SBool {
			return BVCmp(t.Op, a, b).Val
		}
		return BVBin(t.Op, a, b).Val
	}
	panic("eval: unknown op " + t.Op)
}
