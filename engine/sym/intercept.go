package sym

import (
	"fmt"
	"go/types"
	"math"
	"math/big"
	"os"
	"strconv"
	"strings"

	"golang.org/x/tools/go/ssa"
)

const apdP = ApdPath + "."
const bigM = "(*" + ApdPath + ".BigInt)."

func init() {
	// ----- harness primitives -----
	intercepts[apdP+"verifParamInt"] = func(ex *Exec, a []Value, c *ssa.CallCommon) Value {
		name, _ := a[0].(StrV).Concrete()
		s, ok := ex.Opt.Params[name]
		if !ok {
			ex.unsupported("missing harness parameter %q", name)
		}
		v, err := strconv.ParseInt(s, 10, 64)
		if err != nil {
			ex.unsupported("bad int parameter %q=%q", name, s)
		}
		return ConstInt(v)
	}
	intercepts[apdP+"verifParamIntOr"] = func(ex *Exec, a []Value, c *ssa.CallCommon) Value {
		name, _ := a[0].(StrV).Concrete()
		s, ok := ex.Opt.Params[name]
		if !ok {
			return a[1]
		}
		v, err := strconv.ParseInt(s, 10, 64)
		if err != nil {
			ex.unsupported("bad int parameter %q=%q", name, s)
		}
		return ConstInt(v)
	}
	intercepts[apdP+"verifParamStr"] = func(ex *Exec, a []Value, c *ssa.CallCommon) Value {
		name, _ := a[0].(StrV).Concrete()
		s, ok := ex.Opt.Params[name]
		if !ok {
			ex.unsupported("missing harness parameter %q", name)
		}
		return ConstStr(s)
	}
	intercepts[apdP+"verifNondetInt"] = func(ex *Exec, a []Value, c *ssa.CallCommon) Value {
		name, _ := a[0].(StrV).Concrete()
		lo, hi := a[1].(IntV).Const(), a[2].(IntV).Const()
		if lo.Cmp(hi) == 0 {
			return ConstBig(lo)
		}
		v := Var("in_"+name, SInt)
		ex.addInput(name, v, "int")
		ex.assumeT(Le(IntConst(lo), v))
		ex.assumeT(Le(v, IntConst(hi)))
		return IntV{T: v, Lo: lo, Hi: hi}
	}
	intercepts[apdP+"verifNondetBool"] = func(ex *Exec, a []Value, c *ssa.CallCommon) Value {
		name, _ := a[0].(StrV).Concrete()
		v := Var("in_"+name, SBool)
		ex.addInput(name, v, "bool")
		return BoolV{v}
	}
	intercepts[apdP+"verifNondetBits32"] = func(ex *Exec, a []Value, c *ssa.CallCommon) Value {
		name, _ := a[0].(StrV).Concrete()
		v := Var("in_"+name, Sort(32))
		ex.addInput(name, v, "bits")
		return IntV{T: v}
	}
	intercepts[apdP+"verifNondetBits64"] = func(ex *Exec, a []Value, c *ssa.CallCommon) Value {
		name, _ := a[0].(StrV).Concrete()
		v := Var("in_"+name, Sort(64))
		ex.addInput(name, v, "bits")
		return IntV{T: v}
	}
	// verifNondetBig(name, dst *BigInt, lo, hi string): dst := arbitrary integer in [lo,hi]
	intercepts[apdP+"verifNondetBig"] = func(ex *Exec, a []Value, c *ssa.CallCommon) Value {
		name, _ := a[0].(StrV).Concrete()
		los, _ := a[2].(StrV).Concrete()
		his, _ := a[3].(StrV).Concrete()
		lo, ok1 := new(big.Int).SetString(los, 10)
		hi, ok2 := new(big.Int).SetString(his, 10)
		if !ok1 || !ok2 {
			ex.unsupported("verifNondetBig bounds")
		}
		v := Var("in_"+name, SInt)
		ex.addInput(name, v, "big")
		ex.assumeT(Le(IntConst(lo), v))
		ex.assumeT(Le(v, IntConst(hi)))
		ex.store(a[1].(PtrV), IntV{T: v, Lo: lo, Hi: hi})
		return nil
	}
	// verifNondetCoeff(name, dst, maxDigits): 0 <= v < 10^maxDigits
	intercepts[apdP+"verifNondetCoeff"] = func(ex *Exec, a []Value, c *ssa.CallCommon) Value {
		name, _ := a[0].(StrV).Concrete()
		k := a[2].(IntV).Const().Int64()
		hi := new(big.Int).Exp(big.NewInt(10), big.NewInt(k), nil)
		hi.Sub(hi, bigOneI)
		v := Var("in_"+name, SInt)
		ex.addInput(name, v, "big")
		ex.assumeT(Le(IntConst64(0), v))
		ex.assumeT(Le(v, IntConst(hi)))
		ex.store(a[1].(PtrV), IntV{T: v, Lo: big.NewInt(0), Hi: hi})
		return nil
	}
	intercepts[apdP+"verifNondetByte"] = func(ex *Exec, a []Value, c *ssa.CallCommon) Value {
		name, _ := a[0].(StrV).Concrete()
		v := Var("in_"+name, SInt)
		ex.addInput(name, v, "int")
		lo, hi := a[1].(IntV).Const(), a[2].(IntV).Const()
		ex.assumeT(Le(IntConst(lo), v))
		ex.assumeT(Le(v, IntConst(hi)))
		return IntV{T: v, Lo: lo, Hi: hi}
	}
	// verifNondetString(name, n, lo, hi) string of n bytes each in [lo,hi]
	intercepts[apdP+"verifNondetString"] = func(ex *Exec, a []Value, c *ssa.CallCommon) Value {
		name, _ := a[0].(StrV).Concrete()
		n := int(a[1].(IntV).Const().Int64())
		lo, hi := a[2].(IntV).Const(), a[3].(IntV).Const()
		bs := make([]*Term, n)
		for i := 0; i < n; i++ {
			nm := fmt.Sprintf("%s_%d", name, i)
			v := Var("in_"+nm, SInt)
			ex.addInput(nm, v, "int")
			ex.assumeT(Le(IntConst(lo), v))
			ex.assumeT(Le(v, IntConst(hi)))
			bs[i] = v
		}
		return StrV{B: bs}
	}
	intercepts[apdP+"verifAssume"] = func(ex *Exec, a []Value, c *ssa.CallCommon) Value {
		t := a[0].(BoolV).T
		if t.IsTrue() {
			return nil
		}
		if t.IsFalse() {
			ex.stop("assume", "")
		}
		if !ex.decide(t) {
			ex.stop("assume", "")
		}
		return nil
	}
	intercepts[apdP+"verifAssert"] = func(ex *Exec, a []Value, c *ssa.CallCommon) Value {
		id, _ := a[1].(StrV).Concrete()
		ex.assertT(a[0].(BoolV).T, id)
		return nil
	}
	intercepts[apdP+"verifCover"] = func(ex *Exec, a []Value, c *ssa.CallCommon) Value {
		l, _ := a[0].(StrV).Concrete()
		ex.res.Covers = append(ex.res.Covers, l)
		return nil
	}
	intercepts[apdP+"verifConcretize"] = func(ex *Exec, a []Value, c *ssa.CallCommon) Value {
		v := a[0].(IntV)
		return ConstBig(ex.concretize(v, "verifConcretize"))
	}
	intercepts[apdP+"verifConcretizeBig"] = func(ex *Exec, a []Value, c *ssa.CallCommon) Value {
		p := a[0].(PtrV)
		v := ex.load(p).(IntV)
		ex.store(p, ConstBig(ex.concretize(v, "verifConcretizeBig")))
		return nil
	}
	intercepts[apdP+"verifKnownRegion"] = func(ex *Exec, a []Value, c *ssa.CallCommon) Value {
		id, _ := a[0].(StrV).Concrete()
		t := a[1].(BoolV).T
		if !ex.Opt.Known[id] {
			return nil
		}
		if t.IsFalse() {
			return nil
		}
		if ex.decide(t) {
			ex.res.Known = append(ex.res.Known, id)
			ex.stop("known", id)
		}
		return nil
	}
	intercepts[apdP+"verifEnabled"] = func(ex *Exec, a []Value, c *ssa.CallCommon) Value {
		id, _ := a[0].(StrV).Concrete()
		return ConstBool(ex.Opt.Enabled(id))
	}
	intercepts[apdP+"verifObserveInt"] = func(ex *Exec, a []Value, c *ssa.CallCommon) Value {
		name, _ := a[0].(StrV).Concrete()
		v := a[1].(IntV)
		t := v.T
		ex.obs = append(ex.obs, Observation{Name: name, T: t, Kind: "int"})
		return nil
	}
	intercepts[apdP+"verifObserveBool"] = func(ex *Exec, a []Value, c *ssa.CallCommon) Value {
		name, _ := a[0].(StrV).Concrete()
		ex.obs = append(ex.obs, Observation{Name: name, T: a[1].(BoolV).T, Kind: "bool"})
		return nil
	}
	intercepts[apdP+"verifObserveBig"] = func(ex *Exec, a []Value, c *ssa.CallCommon) Value {
		name, _ := a[0].(StrV).Concrete()
		v := ex.load(a[1].(PtrV)).(IntV)
		ex.obs = append(ex.obs, Observation{Name: name, T: v.T, Kind: "int"})
		return nil
	}
	intercepts[apdP+"verifObserveFloat"] = func(ex *Exec, a []Value, c *ssa.CallCommon) Value {
		name, _ := a[0].(StrV).Concrete()
		ex.obs = append(ex.obs, Observation{Name: name, T: ex.floatBits(a[1]), Kind: "int"})
		return nil
	}
	intercepts[apdP+"verifFloatNearest"] = func(ex *Exec, a []Value, c *ssa.CallCommon) Value {
		cv := ex.load(a[2].(PtrV)).(IntV)
		e := ex.concretize(a[3].(IntV), "verifFloatNearest").Int64()
		return BoolV{ex.floatNearest(a[0], a[1].(BoolV).T, cv, e)}
	}
	// verifMakeFloat(neg, m *BigInt, k): the float64 (-1)^neg * m * 2^k, 2^52 <= m < 2^53
	intercepts[apdP+"verifMakeFloat"] = func(ex *Exec, a []Value, c *ssa.CallCommon) Value {
		m := ex.load(a[1].(PtrV)).(IntV)
		k := int(ex.concretize(a[2].(IntV), "verifMakeFloat").Int64())
		neg := ex.decide(a[0].(BoolV).T)
		ex.assumeT(Le(IntConst(two52), m.T))
		ex.assumeT(Lt(m.T, IntConst(two53)))
		ex.refine(m.T, two52, new(big.Int).Sub(two53, bigOneI))
		ex.checkNormal(k)
		return SymFloatV{Neg: neg, M: m.T, K: k}
	}
	intercepts[apdP+"verifFloatSame"] = func(ex *Exec, a []Value, c *ssa.CallCommon) Value {
		return BoolV{Eq(ex.floatBits(a[0]), ex.floatBits(a[1]))}
	}
	intercepts[apdP+"verifObserveStr"] = func(ex *Exec, a []Value, c *ssa.CallCommon) Value {
		name, _ := a[0].(StrV).Concrete()
		ex.obs = append(ex.obs, Observation{Name: name, Kind: "str", Str: a[1].(StrV).B})
		return nil
	}
	intercepts[apdP+"verifFreezeDecimal"] = func(ex *Exec, a []Value, c *ssa.CallCommon) Value {
		p := a[0].(PtrV)
		role, _ := a[1].(StrV).Concrete()
		if len(p.Path) == 0 {
			p.Obj.Frozen = role
		}
		return nil
	}
	intercepts[apdP+"verifFreezeContext"] = intercepts[apdP+"verifFreezeDecimal"]
	intercepts[apdP+"verifFreezeBig"] = intercepts[apdP+"verifFreezeDecimal"]
	intercepts[apdP+"verifCheckFrozen"] = func(ex *Exec, a []Value, c *ssa.CallCommon) Value { return nil }
	intercepts[apdP+"verifSymbolic"] = func(ex *Exec, a []Value, c *ssa.CallCommon) Value { return ConstBool(true) }

	// ----- Level A: apd.BigInt as a mathematical integer -----
	bigArg := func(ex *Exec, v Value) IntV {
		p := v.(PtrV)
		if p.Obj == nil {
			ex.panicEvent("nil *BigInt")
		}
		return ex.load(p).(IntV)
	}
	setBig := func(ex *Exec, z Value, v IntV) Value {
		ex.store(z.(PtrV), v)
		return z
	}
	regA := func(name string, f interceptFn) { levelAIntercepts[bigM+name] = f }

	regA("Set", func(ex *Exec, a []Value, c *ssa.CallCommon) Value { return setBig(ex, a[0], bigArg(ex, a[1])) })
	regA("SetInt64", func(ex *Exec, a []Value, c *ssa.CallCommon) Value {
		return setBig(ex, a[0], unbounded(ex, a[1].(IntV)))
	})
	regA("SetUint64", func(ex *Exec, a []Value, c *ssa.CallCommon) Value {
		return setBig(ex, a[0], unbounded(ex, a[1].(IntV)))
	})
	regA("Add", func(ex *Exec, a []Value, c *ssa.CallCommon) Value {
		x, y := bigArg(ex, a[1]), bigArg(ex, a[2])
		return setBig(ex, a[0], ex.bigAdd(x, y))
	})
	regA("Sub", func(ex *Exec, a []Value, c *ssa.CallCommon) Value {
		x, y := bigArg(ex, a[1]), bigArg(ex, a[2])
		return setBig(ex, a[0], ex.bigAdd(x, ex.bigNeg(y)))
	})
	regA("Mul", func(ex *Exec, a []Value, c *ssa.CallCommon) Value {
		x, y := bigArg(ex, a[1]), bigArg(ex, a[2])
		return setBig(ex, a[0], ex.bigMul(x, y))
	})
	regA("Neg", func(ex *Exec, a []Value, c *ssa.CallCommon) Value {
		return setBig(ex, a[0], ex.bigNeg(bigArg(ex, a[1])))
	})
	regA("Abs", func(ex *Exec, a []Value, c *ssa.CallCommon) Value {
		return setBig(ex, a[0], ex.bigAbs(bigArg(ex, a[1])))
	})
	regA("Quo", func(ex *Exec, a []Value, c *ssa.CallCommon) Value {
		q, _ := ex.bigQuoRem(bigArg(ex, a[1]), bigArg(ex, a[2]))
		return setBig(ex, a[0], q)
	})
	regA("Rem", func(ex *Exec, a []Value, c *ssa.CallCommon) Value {
		_, r := ex.bigQuoRem(bigArg(ex, a[1]), bigArg(ex, a[2]))
		return setBig(ex, a[0], r)
	})
	regA("QuoRem", func(ex *Exec, a []Value, c *ssa.CallCommon) Value {
		q, r := ex.bigQuoRem(bigArg(ex, a[1]), bigArg(ex, a[2]))
		// math/big writes the quotient to z and the remainder to r; z==r aliasing is a caller bug.
		setBig(ex, a[0], q)
		setBig(ex, a[3], r)
		return TupleV{a[0], a[3]}
	})
	regA("Cmp", func(ex *Exec, a []Value, c *ssa.CallCommon) Value {
		x, y := bigArg(ex, a[0]), bigArg(ex, a[1])
		return cmpTerm(x.T, y.T)
	})
	regA("CmpAbs", func(ex *Exec, a []Value, c *ssa.CallCommon) Value {
		x, y := ex.bigAbs(bigArg(ex, a[0])), ex.bigAbs(bigArg(ex, a[1]))
		return cmpTerm(x.T, y.T)
	})
	regA("Sign", func(ex *Exec, a []Value, c *ssa.CallCommon) Value {
		x := bigArg(ex, a[0])
		return cmpTerm(x.T, IntConst64(0))
	})
	regA("Bit", func(ex *Exec, a []Value, c *ssa.CallCommon) Value {
		x := bigArg(ex, a[0])
		i := a[1].(IntV)
		if !i.IsConst() {
			ex.unsupported("BigInt.Bit with symbolic index")
		}
		if i.Const().Sign() < 0 {
			ex.panicEvent("big: negative bit index")
		}
		lo, _ := ex.bounds(x)
		if lo == nil || lo.Sign() < 0 {
			if i.Const().Sign() == 0 {
				return IntV{T: FMod(x.T, IntConst64(2)), Lo: big.NewInt(0), Hi: big.NewInt(1)}
			}
			ex.unsupported("BigInt.Bit(i>0) on possibly negative value")
		}
		p := new(big.Int).Lsh(bigOneI, uint(i.Const().Int64()))
		return IntV{T: FMod(FDiv(x.T, IntConst(p)), IntConst64(2)), Lo: big.NewInt(0), Hi: big.NewInt(1)}
	})
	regA("BitLen", func(ex *Exec, a []Value, c *ssa.CallCommon) Value {
		x := ex.bigAbs(bigArg(ex, a[0]))
		return ConstInt(ex.forkLen(x, 2, "BitLen"))
	})
	regA("IsUint64", func(ex *Exec, a []Value, c *ssa.CallCommon) Value {
		x := bigArg(ex, a[0])
		return BoolV{And(Le(IntConst64(0), x.T), Le(x.T, IntConst(bvMask(64))))}
	})
	regA("IsInt64", func(ex *Exec, a []Value, c *ssa.CallCommon) Value {
		x := bigArg(ex, a[0])
		lo, hi := typeRange(64, true)
		return BoolV{And(Le(IntConst(lo), x.T), Le(x.T, IntConst(hi)))}
	})
	regA("Uint64", func(ex *Exec, a []Value, c *ssa.CallCommon) Value {
		x := ex.bigAbs(bigArg(ex, a[0]))
		lo, hi := ex.bounds(x)
		return ex.mkInt(x.T, lo, hi, typU64)
	})
	regA("Int64", func(ex *Exec, a []Value, c *ssa.CallCommon) Value {
		x0 := bigArg(ex, a[0])
		x := ex.bigAbs(x0)
		lo, hi := ex.bounds(x)
		low := ex.mkInt(x.T, lo, hi, typU64)
		llo, lhi := ex.bounds(low)
		v := ex.mkInt(low.T, llo, lhi, typI64)
		x0lo, _ := ex.bounds(x0)
		if x0lo != nil && x0lo.Sign() >= 0 {
			return v
		}
		if ex.decide(Lt(x0.T, IntConst64(0))) {
			vlo, vhi := ex.bounds(v)
			var nlo, nhi *big.Int
			if vhi != nil {
				nlo = new(big.Int).Neg(vhi)
			}
			if vlo != nil {
				nhi = new(big.Int).Neg(vlo)
			}
			return ex.mkInt(Neg(v.T), nlo, nhi, typI64)
		}
		return v
	})
	regA("Exp", func(ex *Exec, a []Value, c *ssa.CallCommon) Value {
		x, y := bigArg(ex, a[1]), bigArg(ex, a[2])
		if a[3].(PtrV).Obj != nil {
			ex.unsupported("BigInt.Exp with modulus")
		}
		if !x.IsConst() {
			ex.unsupported("symbolic BigInt.Exp base")
		}
		if !y.IsConst() {
			y = ConstBig(ex.concretize(y, "BigInt.Exp exponent"))
		}
		r := new(big.Int).Exp(x.Const(), y.Const(), nil)
		return setBig(ex, a[0], ConstBig(r))
	})
	regA("Lsh", func(ex *Exec, a []Value, c *ssa.CallCommon) Value {
		x, n := bigArg(ex, a[1]), a[2].(IntV)
		if !n.IsConst() {
			ex.unsupported("symbolic shift")
		}
		p := new(big.Int).Lsh(bigOneI, uint(n.Const().Int64()))
		lo, hi := ex.bounds(x)
		l2, h2 := mulInterval(lo, hi, p, p)
		return setBig(ex, a[0], IntV{T: Mul(x.T, IntConst(p)), Lo: l2, Hi: h2})
	})
	regA("Rsh", func(ex *Exec, a []Value, c *ssa.CallCommon) Value {
		x, n := bigArg(ex, a[1]), a[2].(IntV)
		if !n.IsConst() {
			ex.unsupported("symbolic shift")
		}
		p := new(big.Int).Lsh(bigOneI, uint(n.Const().Int64()))
		lo, hi := ex.bounds(x)
		var l2, h2 *big.Int
		if lo != nil {
			l2 = new(big.Int).Div(lo, p)
		}
		if hi != nil {
			h2 = new(big.Int).Div(hi, p)
		}
		// math/big Rsh is an arithmetic shift: floor division.
		return setBig(ex, a[0], IntV{T: FDiv(x.T, IntConst(p)), Lo: l2, Hi: h2})
	})
	regA("String", func(ex *Exec, a []Value, c *ssa.CallCommon) Value {
		p := a[0].(PtrV)
		if p.Obj == nil {
			return ConstStr("<nil>")
		}
		return StrV{B: ex.bigDigits(bigArg(ex, a[0]))}
	})
	regA("Text", func(ex *Exec, a []Value, c *ssa.CallCommon) Value {
		return StrV{B: ex.bigDigits(bigArg(ex, a[0]))}
	})
	regA("Append", func(ex *Exec, a []Value, c *ssa.CallCommon) Value {
		base := a[2].(IntV)
		if !base.IsConst() || base.Const().Int64() != 10 {
			ex.unsupported("BigInt.Append base != 10")
		}
		var ds []*Term
		if a[0].(PtrV).Obj == nil {
			ds = ConstStr("<nil>").B
		} else {
			ds = ex.bigDigits(bigArg(ex, a[0]))
		}
		return ex.appendBytes(a[1].(SliceV), ds)
	})
	regA("SetString", func(ex *Exec, a []Value, c *ssa.CallCommon) Value {
		s := a[1].(StrV)
		base := a[2].(IntV)
		if !base.IsConst() || base.Const().Int64() != 10 {
			ex.unsupported("BigInt.SetString base != 10")
		}
		v, ok := ex.parseDecimalInt(s, true)
		if !ok {
			return TupleV{PtrV{}, ConstBool(false)}
		}
		setBig(ex, a[0], v)
		return TupleV{a[0], ConstBool(true)}
	})
	regA("Bytes", func(ex *Exec, a []Value, c *ssa.CallCommon) Value {
		x := ex.bigAbs(bigArg(ex, a[0]))
		n := ex.forkLen(x, 256, "Bytes")
		return ex.newByteSlice(bigBytes(x.T, int(n)))
	})
	regA("FillBytes", func(ex *Exec, a []Value, c *ssa.CallCommon) Value {
		x := ex.bigAbs(bigArg(ex, a[0]))
		buf := a[1].(SliceV)
		n := ex.forkLen(x, 256, "FillBytes")
		if int(n) > buf.Len {
			ex.panicEvent("math/big: buffer too small to fit value")
		}
		bs := bigBytes(x.T, buf.Len)
		for i, b := range bs {
			ex.store(PtrV{Obj: buf.Arr, Path: append(append([]int{}, buf.Base...), buf.Off+i)}, byteVal(b))
		}
		return buf
	})
	regA("SetBytes", func(ex *Exec, a []Value, c *ssa.CallCommon) Value {
		buf := a[1].(SliceV)
		els := ex.sliceElems(buf)
		t := IntConst64(0)
		hi := big.NewInt(0)
		for _, e := range els {
			t = Add(Mul(t, IntConst64(256)), e.(IntV).T)
			hi = new(big.Int).Add(new(big.Int).Mul(hi, big.NewInt(256)), big.NewInt(255))
		}
		return setBig(ex, a[0], IntV{T: t, Lo: big.NewInt(0), Hi: hi})
	})
	regA("TrailingZeroBits", func(ex *Exec, a []Value, c *ssa.CallCommon) Value {
		x := ex.bigAbs(bigArg(ex, a[0]))
		if x.IsConst() {
			return ConstInt(int64(x.Const().TrailingZeroBits()))
		}
		if ex.decide(Eq(x.T, IntConst64(0))) {
			return ConstInt(0)
		}
		maxN := int64(ex.Opt.MaxDigits) * 4
		_, hi := ex.bounds(x)
		last := int64(-1) // at bit BitLen(hi)-1 the remaining value is 1: no decision needed
		if hi != nil && int64(hi.BitLen()) <= maxN {
			last = int64(hi.BitLen()) - 1
		}
		// halving chain with fresh variables (cur = 2h + b): purely linear, no mod terms
		cur := x.T
		for n := int64(0); n <= maxN; n++ {
			h := ex.freshVar("tzh", SInt)
			b := ex.freshVar("tzb", SInt)
			ex.assumeT(Eq(cur, Add(Mul(IntConst64(2), h), b)))
			ex.assumeT(Le(IntConst64(0), b))
			ex.assumeT(Le(b, IntConst64(1)))
			ex.assumeT(Le(IntConst64(0), h))
			if n == last {
				return ConstInt(n)
			}
			if ex.decide(Eq(b, IntConst64(1))) {
				return ConstInt(n)
			}
			ex.assumeT(Le(IntConst64(1), h))
			cur = h
		}
		ex.stop("unwind", "TrailingZeroBits beyond bound")
		return ConstInt(0)
	})
	// Euclidean division (math/big Div/Mod/DivMod): the remainder is never negative.
	euclid := func(ex *Exec, x, y IntV) (IntV, IntV) {
		q, r := ex.bigQuoRem(x, y)
		rlo, _ := ex.bounds(r)
		if rlo != nil && rlo.Sign() >= 0 {
			return q, r
		}
		if ex.decide(Lt(r.T, IntConst64(0))) {
			if ex.decide(Lt(y.T, IntConst64(0))) {
				return ex.bigAdd(q, ConstBig(bigOneI)), ex.bigAdd(r, ex.bigNeg(y))
			}
			return ex.bigAdd(q, ConstBig(big.NewInt(-1))), ex.bigAdd(r, y)
		}
		return q, r
	}
	regA("Div", func(ex *Exec, a []Value, c *ssa.CallCommon) Value {
		q, _ := euclid(ex, bigArg(ex, a[1]), bigArg(ex, a[2]))
		return setBig(ex, a[0], q)
	})
	regA("Mod", func(ex *Exec, a []Value, c *ssa.CallCommon) Value {
		_, r := euclid(ex, bigArg(ex, a[1]), bigArg(ex, a[2]))
		return setBig(ex, a[0], r)
	})
	regA("DivMod", func(ex *Exec, a []Value, c *ssa.CallCommon) Value {
		q, r := euclid(ex, bigArg(ex, a[1]), bigArg(ex, a[2]))
		setBig(ex, a[0], q)
		setBig(ex, a[3], r)
		return TupleV{a[0], a[3]}
	})
	// Methods with no symbolic model at Level A: evaluated with math/big when every operand is
	// concrete, otherwise the path ends as unsupported (UNDECIDED, never a pass or an alarm).
	constOnly := func(name string, nBig int, f func(z *big.Int, xs []*big.Int, ints []int64) *big.Int) {
		regA(name, func(ex *Exec, a []Value, c *ssa.CallCommon) Value {
			var xs []*big.Int
			var ints []int64
			for i, v := range a[1:] {
				if i < nBig {
					x := bigArg(ex, v)
					if !x.IsConst() {
						ex.unsupported("BigInt.%s on a symbolic value (Level A)", name)
					}
					xs = append(xs, x.Const())
				} else if iv, ok := v.(IntV); ok {
					if !iv.IsConst() {
						ex.unsupported("BigInt.%s with a symbolic argument (Level A)", name)
					}
					ints = append(ints, iv.Const().Int64())
				}
			}
			return setBig(ex, a[0], ConstBig(f(new(big.Int), xs, ints)))
		})
	}
	constOnly("And", 2, func(z *big.Int, x []*big.Int, _ []int64) *big.Int { return z.And(x[0], x[1]) })
	constOnly("Or", 2, func(z *big.Int, x []*big.Int, _ []int64) *big.Int { return z.Or(x[0], x[1]) })
	constOnly("Xor", 2, func(z *big.Int, x []*big.Int, _ []int64) *big.Int { return z.Xor(x[0], x[1]) })
	constOnly("AndNot", 2, func(z *big.Int, x []*big.Int, _ []int64) *big.Int { return z.AndNot(x[0], x[1]) })
	constOnly("Not", 1, func(z *big.Int, x []*big.Int, _ []int64) *big.Int { return z.Not(x[0]) })
	constOnly("Sqrt", 1, func(z *big.Int, x []*big.Int, _ []int64) *big.Int {
		if x[0].Sign() < 0 {
			return z
		}
		return z.Sqrt(x[0])
	})
	constOnly("SetBit", 1, func(z *big.Int, x []*big.Int, i []int64) *big.Int { return z.SetBit(x[0], int(i[0]), uint(i[1])) })
	constOnly("MulRange", 0, func(z *big.Int, _ []*big.Int, i []int64) *big.Int { return z.MulRange(i[0], i[1]) })
	constOnly("Binomial", 0, func(z *big.Int, _ []*big.Int, i []int64) *big.Int { return z.Binomial(i[0], i[1]) })
	for _, name := range []string{"GCD", "ModInverse", "ModSqrt", "ProbablyPrime", "Rand", "Bits", "SetBits", "MathBigInt", "SetMathBigInt",
		"Format", "Scan", "GobEncode", "GobDecode", "MarshalJSON", "UnmarshalJSON", "MarshalText", "UnmarshalText", "Size",
		"inner", "innerOrNil", "innerOrAlias", "innerOrNilOrAlias", "updateInner"} {
		name := name
		regA(name, func(ex *Exec, a []Value, c *ssa.CallCommon) Value {
			ex.unsupported("BigInt.%s is not modelled at Level A (the coefficient is a mathematical integer)", name)
			return nil
		})
	}
	// Representation queries at Level A: WHICH representation holds a value is not part of the
	// integer abstraction, so it is an arbitrary choice per (object, value) constrained only by
	// the representation invariant (inline values are below 2^128) - the same over-approximation
	// as Level B's arbitrary valid pre-state.
	inlineChoice := func(ex *Exec, recv Value, x IntV) *Term {
		pp := recv.(PtrV)
		key := fmt.Sprintf("%p/%v/%p", pp.Obj, pp.Path, x.T)
		if ex.inlMemo == nil {
			ex.inlMemo = map[string]*Term{}
		}
		if t, ok := ex.inlMemo[key]; ok {
			return t
		}
		t := ex.freshVar("inline", SBool)
		lim := new(big.Int).Lsh(bigOneI, 128)
		ex.assumeT(Implies(t, And(Lt(Neg(IntConst(lim)), x.T), Lt(x.T, IntConst(lim)))))
		ex.inlMemo[key] = t
		return t
	}
	regA("isInline", func(ex *Exec, a []Value, c *ssa.CallCommon) Value {
		return BoolV{inlineChoice(ex, a[0], bigArg(ex, a[0]))}
	})
	regA("innerAsUint64", func(ex *Exec, a []Value, c *ssa.CallCommon) Value {
		x := bigArg(ex, a[0])
		inl := inlineChoice(ex, a[0], x)
		ax := ex.bigAbs(x)
		ok := And(inl, Le(ax.T, IntConst(bvMask(64))))
		val := IntV{T: Ite(ok, ax.T, IntConst64(0)), Lo: big.NewInt(0), Hi: bvMask(64)}
		neg := And(ok, Lt(x.T, IntConst64(0)))
		return TupleV{val, BoolV{neg}, BoolV{ok}}
	})
	regA("updateInnerFromUint64", func(ex *Exec, a []Value, c *ssa.CallCommon) Value {
		v := unbounded(ex, a[1].(IntV))
		neg := a[2].(BoolV).T
		if neg.IsFalse() {
			setBig(ex, a[0], v)
		} else if neg.IsTrue() {
			setBig(ex, a[0], ex.bigNeg(v))
		} else if ex.decide(neg) {
			setBig(ex, a[0], ex.bigNeg(v))
		} else {
			setBig(ex, a[0], v)
		}
		return nil
	})
	levelAIntercepts[apdP+"NewBigInt"] = func(ex *Exec, a []Value, c *ssa.CallCommon) Value {
		o := ex.newObject(unbounded(ex, a[0].(IntV)), "NewBigInt", nil)
		return PtrV{Obj: o}
	}
	levelAIntercepts[apdP+"NumDigits"] = func(ex *Exec, a []Value, c *ssa.CallCommon) Value {
		if ex.Opt.Params["realNumDigits"] == "1" {
			fn := ex.P.Pkg.Func("NumDigits")
			return ex.callReal(fn, a)
		}
		x := ex.bigAbs(bigArg(ex, a[0]))
		return ConstInt(ex.numDigits(x))
	}
}

var levelAIntercepts = map[string]interceptFn{}

func (ex *Exec) callReal(fn *ssa.Function, args []Value) Value {
	name := fn.String()
	if ex.skip == nil {
		ex.skip = map[string]int{}
	}
	ex.skip[name]++
	defer func() { ex.skip[name]-- }()
	return ex.CallFn(fn, args, nil)
}

var typU64 = basicType("uint64")
var typI64 = basicType("int64")

func unbounded(ex *Exec, v IntV) IntV {
	if v.IsBV() {
		ex.unsupported("bit-vector value stored into Level-A BigInt")
	}
	lo, hi := ex.bounds(v)
	return IntV{T: v.T, Lo: lo, Hi: hi}
}

func cmpTerm(x, y *Term) IntV {
	t := Ite(Lt(x, y), IntConst64(-1), Ite(Eq(x, y), IntConst64(0), IntConst64(1)))
	if t.IsConst() {
		return ConstBig(t.Val)
	}
	return IntV{T: t, Lo: big.NewInt(-1), Hi: big.NewInt(1)}
}

func (ex *Exec) addInput(name string, v *Term, kind string) {
	for _, in := range ex.inputs {
		if in.Name == name {
			ex.unsupported("duplicate nondet name %q", name)
		}
	}
	ex.inputs = append(ex.inputs, Input{Name: name, T: v, Kind: kind})
}

func (ex *Exec) bigAdd(x, y IntV) IntV {
	xlo, xhi := ex.bounds(x)
	ylo, yhi := ex.bounds(y)
	var lo, hi *big.Int
	if xlo != nil && ylo != nil {
		lo = new(big.Int).Add(xlo, ylo)
	}
	if xhi != nil && yhi != nil {
		hi = new(big.Int).Add(xhi, yhi)
	}
	return IntV{T: Add(x.T, y.T), Lo: lo, Hi: hi}
}

func (ex *Exec) bigNeg(x IntV) IntV {
	lo, hi := ex.bounds(x)
	var nlo, nhi *big.Int
	if hi != nil {
		nlo = new(big.Int).Neg(hi)
	}
	if lo != nil {
		nhi = new(big.Int).Neg(lo)
	}
	return IntV{T: Neg(x.T), Lo: nlo, Hi: nhi}
}

func (ex *Exec) bigAbs(x IntV) IntV {
	lo, hi := ex.bounds(x)
	if lo != nil && lo.Sign() >= 0 {
		return IntV{T: x.T, Lo: lo, Hi: hi}
	}
	if hi != nil && hi.Sign() <= 0 {
		return ex.bigNeg(x)
	}
	var ahi *big.Int
	if lo != nil && hi != nil {
		ahi = bmax(new(big.Int).Abs(lo), new(big.Int).Abs(hi))
	}
	return IntV{T: Abs(x.T), Lo: big.NewInt(0), Hi: ahi}
}

// bigQuoRem models math/big truncated division; division by zero is a panic obligation.
func (ex *Exec) bigQuoRem(x, y IntV) (IntV, IntV) {
	ylo, yhi := ex.bounds(y)
	xlo, xhi := ex.bounds(x)
	x = IntV{T: x.T, Lo: xlo, Hi: xhi}
	y = IntV{T: y.T, Lo: ylo, Hi: yhi}
	if !(ylo != nil && ylo.Sign() > 0) && !(yhi != nil && yhi.Sign() < 0) {
		if ex.decide(Eq(y.T, IntConst64(0))) {
			ex.panicEvent("division by zero (math/big)")
		}
	}
	qlo, qhi, rlo, rhi := divInterval(x, y)
	xNonNeg0 := xlo != nil && xlo.Sign() >= 0
	yPos0 := ylo != nil && ylo.Sign() > 0
	if y.IsConst() && ((xNonNeg0 && yPos0) || x.IsConst()) {
		q, r := tdiv(x, y)
		return IntV{T: q, Lo: qlo, Hi: qhi}, IntV{T: r, Lo: rlo, Hi: rhi}
	}
	// (a possibly negative dividend goes through fresh q, r as well: the closed form mentions
	// the dividend several times, and a loop of such divisions would grow exponentially when
	// the shared term DAG is printed as a tree)
	// symbolic divisor: fresh quotient and remainder with the defining relation
	// (one pair per (dividend, divisor) on a path: Euclidean division is a function)
	if ex.divMemo == nil {
		ex.divMemo = map[[2]*Term][2]IntV{}
	}
	if qr, ok := ex.divMemo[[2]*Term{x.T, y.T}]; ok {
		return qr[0], qr[1]
	}
	defer func() {}()
	q := ex.freshVar("q", SInt)
	r := ex.freshVar("r", SInt)
	ex.assumeT(Eq(x.T, Add(Mul(q, y.T), r)))
	xNonNeg := xlo != nil && xlo.Sign() >= 0
	yPos := ylo != nil && ylo.Sign() > 0
	if xNonNeg && yPos {
		ex.assumeT(Le(IntConst64(0), r))
		ex.assumeT(Lt(r, y.T))
		ex.assumeT(Le(IntConst64(0), q))
	} else {
		ex.assumeT(Lt(Abs(r), Abs(y.T)))
		ex.assumeT(Implies(Le(IntConst64(0), x.T), Le(IntConst64(0), r)))
		ex.assumeT(Implies(Le(x.T, IntConst64(0)), Le(r, IntConst64(0))))
	}
	if qlo != nil {
		ex.assumeT(Le(IntConst(qlo), q))
		ex.assumeT(Le(q, IntConst(qhi)))
	}
	qv, rv := IntV{T: q, Lo: qlo, Hi: qhi}, IntV{T: r, Lo: rlo, Hi: rhi}
	ex.divMemo[[2]*Term{x.T, y.T}] = [2]IntV{qv, rv}
	return qv, rv
}

// forkLen forks on the smallest n with |x| < base^n (n = 0 for x == 0): bit length (base 2),
// byte length (base 256).
func (ex *Exec) forkLen(x IntV, base int64, what string) int64 {
	if x.IsConst() {
		if base == 2 {
			return int64(x.Const().BitLen())
		}
		return int64((x.Const().BitLen() + 7) / 8)
	}
	lo, hi := ex.bounds(x)
	maxN := int64(ex.Opt.MaxDigits) * 4
	if base == 256 {
		maxN = int64(ex.Opt.MaxDigits)
	}
	b := big.NewInt(base)
	for n := int64(0); n <= maxN; n++ {
		p := new(big.Int).Exp(b, big.NewInt(n), nil) // |x| < base^n ?
		if lo != nil && lo.Cmp(p) >= 0 {
			continue
		}
		if hi != nil && hi.Cmp(p) < 0 {
			ex.refine(x.T, nil, new(big.Int).Sub(p, bigOneI))
			return n
		}
		if ex.decide(Lt(x.T, IntConst(p))) {
			ex.refine(x.T, nil, new(big.Int).Sub(p, bigOneI))
			return n
		}
		ex.refine(x.T, p, nil)
		lo = p
	}
	ex.stop("unwind", what+" beyond bound")
	return 0
}

// numDigits forks on the decimal digit count of a non-negative value.
func (ex *Exec) numDigits(x IntV) int64 {
	if x.IsConst() {
		if x.Const().Sign() == 0 {
			return 1
		}
		return int64(len(x.Const().String()))
	}
	if ex.ndMemo == nil {
		ex.ndMemo = map[*Term]int64{}
	}
	if n, ok := ex.ndMemo[x.T]; ok {
		return n
	}
	lo, hi := ex.bounds(x)
	ten := big.NewInt(10)
	pow := func(n int64) *big.Int { return new(big.Int).Exp(ten, big.NewInt(n), nil) }
	// candidate range of the digit count from the interval, then bisection on |x| < 10^mid
	// (a linear scan costs one query per digit, which dominates at 100+ digits)
	loN, hiN := int64(1), int64(ex.Opt.MaxDigits)+1
	if lo != nil && lo.Sign() > 0 {
		loN = int64(len(lo.String()))
	}
	if hi != nil {
		if h := int64(len(hi.String())); hi.Sign() > 0 && h < hiN {
			hiN = h
		} else if hi.Sign() <= 0 {
			hiN = 1
		}
	}
	if loN > hiN {
		loN = hiN
	}
	for loN < hiN {
		mid := (loN + hiN) / 2
		p := pow(mid)
		if ex.decide(Lt(x.T, IntConst(p))) {
			hiN = mid
			ex.refine(x.T, nil, new(big.Int).Sub(p, bigOneI))
		} else {
			loN = mid + 1
			ex.refine(x.T, p, nil)
		}
	}
	if loN > int64(ex.Opt.MaxDigits) {
		ex.stop("unwind", "NumDigits beyond MaxDigits bound")
	}
	ex.ndMemo[x.T] = loN
	return loN
}

// bigDigits returns the decimal text of x (with '-' if negative), forking on sign and digit count.
func (ex *Exec) bigDigits(x IntV) []*Term {
	if x.IsConst() {
		return ConstStr(x.Const().String()).B
	}
	neg := false
	lo, _ := ex.bounds(x)
	if lo == nil || lo.Sign() < 0 {
		neg = ex.decide(Lt(x.T, IntConst64(0)))
	}
	a := x
	if neg {
		a = ex.bigNeg(x)
		if a.Lo == nil || a.Lo.Sign() < 0 {
			a.Lo = big.NewInt(0)
		}
	} else if lo == nil || lo.Sign() < 0 {
		a = IntV{T: x.T, Lo: big.NewInt(0), Hi: x.Hi}
	}
	n := ex.numDigits(a)
	var out []*Term
	if neg {
		out = append(out, IntConst64('-'))
	}
	ten := big.NewInt(10)
	for i := n - 1; i >= 0; i-- {
		p := new(big.Int).Exp(ten, big.NewInt(i), nil)
		d := FMod(FDiv(a.T, IntConst(p)), IntConst64(10))
		b := Add(d, IntConst64('0'))
		if ex.digOrigin == nil {
			ex.digOrigin = map[*Term]digOrigin{}
		}
		ex.digOrigin[b] = digOrigin{x: a.T, pos: int(i), n: int(n)}
		out = append(out, b)
	}
	return out
}

func bigBytes(x *Term, n int) []*Term {
	out := make([]*Term, n)
	for i := 0; i < n; i++ {
		p := new(big.Int).Exp(big.NewInt(256), big.NewInt(int64(n-1-i)), nil)
		out[i] = FMod(FDiv(x, IntConst(p)), IntConst64(256))
	}
	return out
}

func (ex *Exec) appendBytes(s SliceV, bs []*Term) Value {
	if len(bs) == 0 {
		return s
	}
	if !s.Nil && s.Len+len(bs) <= s.Cap {
		for i, b := range bs {
			ex.store(PtrV{Obj: s.Arr, Path: append(append([]int{}, s.Base...), s.Off+s.Len+i)}, byteVal(b))
		}
		s.Len += len(bs)
		return s
	}
	n := s.Len + len(bs)
	arr := &ArrayV{E: make([]Value, 2*n)}
	for i := 0; i < 2*n; i++ {
		switch {
		case i < s.Len:
			arr.E[i] = getAt(s.Arr.V, append(append([]int{}, s.Base...), s.Off+i))
		case i < n:
			arr.E[i] = byteVal(bs[i-s.Len])
		default:
			arr.E[i] = ConstInt(0)
		}
	}
	o := ex.newObject(arr, "appendBytes", nil)
	return SliceV{Arr: o, Len: n, Cap: 2 * n}
}

// parseDecimalInt models the acceptance and value of [+-]?[0-9]+ (strconv.ParseInt base 10
// without range check / math/big SetString base 10). The path forks on validity.
func (ex *Exec) parseDecimalInt(s StrV, allowSign bool) (IntV, bool) {
	bs := s.B
	if len(bs) == 0 {
		return IntV{}, false
	}
	neg := false
	if allowSign {
		if ex.decide(Eq(bs[0], IntConst64('-'))) {
			neg = true
			bs = bs[1:]
		} else if ex.decide(Eq(bs[0], IntConst64('+'))) {
			bs = bs[1:]
		}
	}
	if len(bs) == 0 {
		return IntV{}, false
	}
	// a complete run of digits printed from one non-negative integer denotes that integer
	if o, ok := ex.digOrigin[bs[0]]; ok && o.n == len(bs) && o.pos == o.n-1 {
		run := true
		for i, b := range bs {
			if oo, ok := ex.digOrigin[b]; !ok || oo.x != o.x || oo.pos != o.n-1-i {
				run = false
				break
			}
		}
		if run {
			hi := new(big.Int).Exp(big.NewInt(10), big.NewInt(int64(len(bs))), nil)
			hi.Sub(hi, bigOneI)
			v := IntV{T: o.x, Lo: big.NewInt(0), Hi: hi}
			if lo, h2 := ex.bounds(v); lo != nil || h2 != nil {
				if lo != nil && lo.Sign() > 0 {
					v.Lo = lo
				}
				if h2 != nil && h2.Cmp(hi) < 0 {
					v.Hi = h2
				}
			}
			if neg {
				v = ex.bigNeg(v)
			}
			return v, true
		}
	}
	conds := make([]*Term, 0, len(bs))
	for _, b := range bs {
		conds = append(conds, And(Le(IntConst64('0'), b), Le(b, IntConst64('9'))))
	}
	if !ex.decide(And(conds...)) {
		return IntV{}, false
	}
	t := IntConst64(0)
	for _, b := range bs {
		t = Add(Mul(t, IntConst64(10)), Sub(b, IntConst64('0')))
	}
	hi := new(big.Int).Exp(big.NewInt(10), big.NewInt(int64(len(bs))), nil)
	hi.Sub(hi, bigOneI)
	v := IntV{T: t, Lo: big.NewInt(0), Hi: hi}
	if neg {
		v = ex.bigNeg(v)
	}
	return v, true
}

func (ex *Exec) newError(msg string) Value {
	o := ex.newObject(&StructV{F: []Value{ConstStr(msg)}}, "error", nil)
	return IfaceV{Typ: errType, V: PtrV{Obj: o}}
}

// externalStub returns the model for a function outside the apd package.
func (ex *Exec) externalStub(name string) interceptFn {
	switch name {
	case "errors.New":
		return func(ex *Exec, a []Value, c *ssa.CallCommon) Value { return ex.newError("errors.New") }
	case "fmt.Errorf":
		return func(ex *Exec, a []Value, c *ssa.CallCommon) Value { return ex.newError("fmt.Errorf") }
	case "fmt.Sprintf", "fmt.Sprint":
		return func(ex *Exec, a []Value, c *ssa.CallCommon) Value { return ConstStr("<fmt>") }
	case "fmt.Fprintf":
		return func(ex *Exec, a []Value, c *ssa.CallCommon) Value { return TupleV{ConstInt(0), IfaceV{}} }
	case "strings.HasPrefix":
		return func(ex *Exec, a []Value, c *ssa.CallCommon) Value {
			s, p := a[0].(StrV), a[1].(StrV)
			if len(p.B) > len(s.B) {
				return ConstBool(false)
			}
			cs := make([]*Term, len(p.B))
			for i := range p.B {
				cs[i] = Eq(s.B[i], p.B[i])
			}
			return BoolV{And(cs...)}
		}
	case "strings.ToLower":
		// Model for ARBITRARY bytes. ASCII letters are lower-cased. Exactly two non-ASCII
		// runes lower-case to ASCII: U+0130 (C4 B0) -> 'i' and U+212A (E2 84 AA) -> 'k'; both
		// byte sequences are decoded as such in any context (C4/E2 always start a rune). Every
		// other byte >= 0x80 stays non-ASCII after lowering (possibly as U+FFFD); it is kept
		// as it is, which is exact for every string the callers accept and irrelevant for the
		// ones they reject.
		return func(ex *Exec, a []Value, c *ssa.CallCommon) Value {
			s := a[0].(StrV)
			n := len(s.B)
			var out []*Term
			c8 := func(v int64) *Term { return IntConst64(v) }
			for i := 0; i < n; {
				b := s.B[i]
				lo, hi := ex.bounds(byteVal(b))
				mayHigh := hi == nil || hi.Cmp(big.NewInt(0x80)) >= 0
				_ = lo
				if mayHigh && ex.decide(Le(c8(0x80), b)) {
					if i+1 < n && ex.decide(And(Eq(b, c8(0xC4)), Eq(s.B[i+1], c8(0xB0)))) {
						out = append(out, c8('i'))
						i += 2
						continue
					}
					if i+2 < n && ex.decide(And(Eq(b, c8(0xE2)), And(Eq(s.B[i+1], c8(0x84)), Eq(s.B[i+2], c8(0xAA))))) {
						out = append(out, c8('k'))
						i += 3
						continue
					}
					out = append(out, b)
					i++
					continue
				}
				if b.IsConst() {
					v := b.Val.Int64()
					if v >= 'A' && v <= 'Z' {
						v += 32
					}
					out = append(out, c8(v))
				} else if _, isDigit := ex.digOrigin[b]; isDigit {
					out = append(out, b)
				} else {
					out = append(out, Ite(And(Le(c8('A'), b), Le(b, c8('Z'))), Add(b, c8(32)), b))
				}
				i++
			}
			return StrV{B: out}
		}
	case "strings.IndexByte":
		return func(ex *Exec, a []Value, c *ssa.CallCommon) Value {
			s := a[0].(StrV)
			ch := a[1].(IntV).T
			for i, b := range s.B {
				if ex.decide(Eq(b, ch)) {
					return ConstInt(int64(i))
				}
			}
			return ConstInt(-1)
		}
	case "strings.TrimLeft", "strings.TrimRight":
		return func(ex *Exec, a []Value, c *ssa.CallCommon) Value {
			s := a[0].(StrV)
			cut, ok := a[1].(StrV).Concrete()
			if !ok {
				ex.unsupported("%s with a symbolic cutset", name)
			}
			inCut := func(b *Term) *Term {
				cs := []*Term{}
				for k := 0; k < len(cut); k++ {
					cs = append(cs, Eq(b, IntConst64(int64(cut[k]))))
				}
				return Or(cs...)
			}
			bs := s.B
			if name == "strings.TrimLeft" {
				for len(bs) > 0 && ex.decide(inCut(bs[0])) {
					bs = bs[1:]
				}
			} else {
				for len(bs) > 0 && ex.decide(inCut(bs[len(bs)-1])) {
					bs = bs[:len(bs)-1]
				}
			}
			return StrV{B: bs}
		}
	case "strings.HasSuffix":
		return func(ex *Exec, a []Value, c *ssa.CallCommon) Value {
			s, p := a[0].(StrV), a[1].(StrV)
			if len(p.B) > len(s.B) {
				return ConstBool(false)
			}
			off := len(s.B) - len(p.B)
			cs := make([]*Term, len(p.B))
			for i := range p.B {
				cs[i] = Eq(s.B[off+i], p.B[i])
			}
			return BoolV{And(cs...)}
		}
	case "strings.TrimPrefix", "strings.TrimSuffix":
		return func(ex *Exec, a []Value, c *ssa.CallCommon) Value {
			s, p := a[0].(StrV), a[1].(StrV)
			if len(p.B) > len(s.B) {
				return s
			}
			off := 0
			if name == "strings.TrimSuffix" {
				off = len(s.B) - len(p.B)
			}
			cs := make([]*Term, len(p.B))
			for i := range p.B {
				cs[i] = Eq(s.B[off+i], p.B[i])
			}
			if ex.decide(And(cs...)) {
				if name == "strings.TrimSuffix" {
					return StrV{B: s.B[:off]}
				}
				return StrV{B: s.B[len(p.B):]}
			}
			return s
		}
	case "strings.LastIndexByte":
		return func(ex *Exec, a []Value, c *ssa.CallCommon) Value {
			s := a[0].(StrV)
			ch := a[1].(IntV).T
			for i := len(s.B) - 1; i >= 0; i-- {
				if ex.decide(Eq(s.B[i], ch)) {
					return ConstInt(int64(i))
				}
			}
			return ConstInt(-1)
		}
	case "strings.ContainsRune", "strings.ContainsAny", "strings.Contains", "strings.Index", "strings.IndexAny", "strings.Count", "strings.EqualFold", "strings.Repeat", "strings.ToUpper", "strings.TrimSpace", "strings.Fields", "strings.Split":
		return func(ex *Exec, a []Value, c *ssa.CallCommon) Value {
			// concrete arguments only
			args := make([]string, 0, len(a))
			for _, v := range a {
				if sv, ok := v.(StrV); ok {
					str, ok := sv.Concrete()
					if !ok {
						ex.unsupported("%s on a symbolic string (no model for this function)", name)
					}
					args = append(args, str)
				}
			}
			switch name {
			case "strings.Contains":
				return ConstBool(strings.Contains(args[0], args[1]))
			case "strings.ContainsAny":
				return ConstBool(strings.ContainsAny(args[0], args[1]))
			case "strings.Index":
				return ConstInt(int64(strings.Index(args[0], args[1])))
			case "strings.IndexAny":
				return ConstInt(int64(strings.IndexAny(args[0], args[1])))
			case "strings.Count":
				return ConstInt(int64(strings.Count(args[0], args[1])))
			case "strings.EqualFold":
				return ConstBool(strings.EqualFold(args[0], args[1]))
			case "strings.ToUpper":
				return ConstStr(strings.ToUpper(args[0]))
			case "strings.TrimSpace":
				return ConstStr(strings.TrimSpace(args[0]))
			case "strings.Repeat":
				return ConstStr(strings.Repeat(args[0], int(a[1].(IntV).Const().Int64())))
			}
			ex.unsupported("%s: no model", name)
			return nil
		}
	case "strings.Join":
		return func(ex *Exec, a []Value, c *ssa.CallCommon) Value { return ConstStr("<join>") }
	case "strconv.ParseInt", "strconv.ParseUint":
		signed := name == "strconv.ParseInt"
		return func(ex *Exec, a []Value, c *ssa.CallCommon) Value {
			s := a[0].(StrV)
			base := a[1].(IntV).Const().Int64()
			bits := int(a[2].(IntV).Const().Int64())
			if base != 10 {
				ex.unsupported("strconv.Parse* base %d", base)
			}
			if bits == 0 {
				bits = 64
			}
			v, ok := ex.parseDecimalInt(s, signed)
			if !ok {
				return TupleV{ConstInt(0), ex.newError("strconv: syntax")}
			}
			lo, hi := typeRange(bits, signed)
			if ex.decide(Lt(v.T, IntConst(lo))) {
				return TupleV{ConstBig(lo), ex.newError("strconv: range")}
			}
			if ex.decide(Lt(IntConst(hi), v.T)) {
				return TupleV{ConstBig(hi), ex.newError("strconv: range")}
			}
			vlo, vhi := ex.bounds(v)
			if vlo == nil || vlo.Cmp(lo) < 0 {
				vlo = lo
			}
			if vhi == nil || vhi.Cmp(hi) > 0 {
				vhi = hi
			}
			return TupleV{IntV{T: v.T, Lo: vlo, Hi: vhi}, IfaceV{}}
		}
	case "strconv.AppendInt", "strconv.AppendUint":
		return func(ex *Exec, a []Value, c *ssa.CallCommon) Value {
			base := a[2].(IntV).Const().Int64()
			if base != 10 {
				ex.unsupported("strconv.Append* base %d", base)
			}
			v := a[1].(IntV)
			lo, hi := ex.bounds(v)
			return ex.appendBytes(a[0].(SliceV), ex.bigDigits(IntV{T: v.T, Lo: lo, Hi: hi}))
		}
	case "strconv.ParseFloat":
		return func(ex *Exec, a []Value, c *ssa.CallCommon) Value {
			str, ok := a[0].(StrV).Concrete()
			if !ok {
				if a[1].(IntV).Const().Int64() != 64 {
					ex.stop("cut_float", name+" (bitSize 32) on a symbolic string")
				}
				v, ok := ex.parseFloatSym(a[0].(StrV))
				if !ok {
					return TupleV{FloatV{0}, ex.newError("strconv.ParseFloat")}
				}
				return TupleV{v, IfaceV{}}
			}
			f, err := strconv.ParseFloat(str, int(a[1].(IntV).Const().Int64()))
			if err != nil {
				return TupleV{FloatV{f}, ex.newError("strconv.ParseFloat")}
			}
			return TupleV{FloatV{f}, IfaceV{}}
		}
	case "strconv.AppendFloat":
		return func(ex *Exec, a []Value, c *ssa.CallCommon) Value {
			f, ok := a[1].(FloatV)
			if !ok {
				if a[4].(IntV).Const().Int64() != 64 {
					ex.stop("cut_float", name+" (bitSize 32) on a symbolic float")
				}
				bs := ex.appendFloatSym(a[1], byte(a[2].(IntV).Const().Int64()), int(a[3].(IntV).Const().Int64()))
				return ex.appendBytes(a[0].(SliceV), bs)
			}
			out := strconv.AppendFloat(nil, f.F, byte(a[2].(IntV).Const().Int64()), int(a[3].(IntV).Const().Int64()), int(a[4].(IntV).Const().Int64()))
			return ex.appendBytes(a[0].(SliceV), ConstStr(string(out)).B)
		}
	case "strconv.FormatFloat":
		return func(ex *Exec, a []Value, c *ssa.CallCommon) Value {
			if f, ok := a[0].(FloatV); ok {
				return ConstStr(strconv.FormatFloat(f.F, byte(a[1].(IntV).Const().Int64()), int(a[2].(IntV).Const().Int64()), int(a[3].(IntV).Const().Int64())))
			}
			if a[3].(IntV).Const().Int64() != 64 {
				ex.stop("cut_float", name+" (bitSize 32) on a symbolic float")
			}
			return StrV{B: ex.appendFloatSym(a[0], byte(a[1].(IntV).Const().Int64()), int(a[2].(IntV).Const().Int64()))}
		}
	case "math.NaN":
		return func(ex *Exec, a []Value, c *ssa.CallCommon) Value { return FloatV{math.NaN()} }
	case "math.Inf":
		return func(ex *Exec, a []Value, c *ssa.CallCommon) Value {
			return FloatV{math.Inf(int(a[0].(IntV).Const().Int64()))}
		}
	case "math.Copysign":
		return func(ex *Exec, a []Value, c *ssa.CallCommon) Value {
			x, ok1 := a[0].(FloatV)
			y, ok2 := a[1].(FloatV)
			if !ok1 || !ok2 {
				ex.stop("cut_float", name)
			}
			return FloatV{math.Copysign(x.F, y.F)}
		}
	case "math.Float64bits":
		return func(ex *Exec, a []Value, c *ssa.CallCommon) Value {
			t := ex.floatBits(a[0])
			if t.IsConst() {
				return ConstBig(t.Val)
			}
			return IntV{T: t, Lo: big.NewInt(0), Hi: bvMask(64)}
		}
	case "math.Signbit":
		return func(ex *Exec, a []Value, c *ssa.CallCommon) Value {
			switch f := ex.asSym(a[0]).(type) {
			case FloatV:
				return ConstBool(math.Signbit(f.F))
			case SymFloatV:
				return ConstBool(f.Neg)
			}
			ex.stop("cut_float", name)
			return nil
		}
	case "math.IsInf":
		return func(ex *Exec, a []Value, c *ssa.CallCommon) Value {
			if f, ok := a[0].(FloatV); ok {
				return ConstBool(math.IsInf(f.F, int(a[1].(IntV).Const().Int64())))
			}
			return ConstBool(false) // symbolic floats are finite by construction
		}
	case "math.Abs":
		return func(ex *Exec, a []Value, c *ssa.CallCommon) Value {
			switch f := a[0].(type) {
			case FloatV:
				return FloatV{math.Abs(f.F)}
			case SymFloatV:
				f.Neg = false
				return f
			case NearestV:
				f.Neg = false
				return f
			}
			ex.stop("cut_float", name)
			return nil
		}
	case "math.Trunc":
		return func(ex *Exec, a []Value, c *ssa.CallCommon) Value { return ex.floatRoundInt(name, a[0]) }
	case "math.Log", "math.Log10", "math.Ceil", "math.IsNaN", "math.Floor":
		return func(ex *Exec, a []Value, c *ssa.CallCommon) Value {
			if (name == "math.Ceil" || name == "math.Floor") && isSymFloat(a[0]) {
				return ex.floatRoundInt(name, a[0])
			}
			if name == "math.IsNaN" && isSymFloat(a[0]) {
				return ConstBool(false)
			}
			f, ok := a[0].(FloatV)
			if !ok {
				ex.stop("cut_float", name)
			}
			switch name {
			case "math.Log":
				return FloatV{math.Log(f.F)}
			case "math.Log10":
				return FloatV{math.Log10(f.F)}
			case "math.Ceil":
				return FloatV{math.Ceil(f.F)}
			case "math.Floor":
				return FloatV{math.Floor(f.F)}
			}
			return ConstBool(math.IsNaN(f.F))
		}
	}
	if strings.HasPrefix(name, "math/bits.") {
		return bitsStub(name)
	}
	return nil
}

func init() {
	b2 := func(f func(a, b *Term) *Term) interceptFn {
		return func(ex *Exec, a []Value, c *ssa.CallCommon) Value {
			return BoolV{f(a[0].(BoolV).T, a[1].(BoolV).T)}
		}
	}
	intercepts[apdP+"verifAnd"] = b2(func(a, b *Term) *Term { return And(a, b) })
	intercepts[apdP+"verifOr"] = b2(func(a, b *Term) *Term { return Or(a, b) })
	intercepts[apdP+"verifImplies"] = b2(Implies)
	intercepts[apdP+"verifIff"] = b2(Eq)
	intercepts[apdP+"verifNot"] = func(ex *Exec, a []Value, c *ssa.CallCommon) Value { return BoolV{Not(a[0].(BoolV).T)} }
	intercepts[apdP+"verifIteInt"] = func(ex *Exec, a []Value, c *ssa.CallCommon) Value {
		x, y := a[1].(IntV), a[2].(IntV)
		t := Ite(a[0].(BoolV).T, x.T, y.T)
		if t.IsConst() {
			return ConstBig(t.Val)
		}
		var lo, hi *big.Int
		if x.Lo != nil && y.Lo != nil {
			lo = bmin(x.Lo, y.Lo)
		}
		if x.Hi != nil && y.Hi != nil {
			hi = bmax(x.Hi, y.Hi)
		}
		return IntV{T: t, Lo: lo, Hi: hi}
	}
	intercepts[apdP+"verifPow10"] = func(ex *Exec, a []Value, c *ssa.CallCommon) Value {
		k := ex.concretize(a[1].(IntV), "verifPow10")
		if k.Sign() < 0 {
			ex.unsupported("verifPow10 with negative exponent")
		}
		v := new(big.Int).Exp(big.NewInt(10), k, nil)
		ex.store(a[0].(PtrV), ConstBig(v))
		return a[0]
	}
	intercepts[apdP+"verifNumDigits"] = func(ex *Exec, a []Value, c *ssa.CallCommon) Value {
		x := ex.bigAbs(ex.load(a[0].(PtrV)).(IntV))
		return ConstInt(ex.numDigits(x))
	}
}

func init() {
	// Error-message formatting is not the subject of any property except in the dedicated
	// C04 harness (param realCondString=1): an empty body avoids forking on every trap bit.
	intercepts["("+ApdPath+".Condition).String"] = func(ex *Exec, a []Value, c *ssa.CallCommon) Value {
		if ex.Opt.Params["realCondString"] == "1" {
			fn := ex.P.Prog.FuncValue(ex.P.Pkg.Type("Condition").Object().Type().(*types.Named).Method(condStringIndex(ex)))
			return ex.callReal(fn, a)
		}
		return ConstStr("<condition>")
	}
}

func condStringIndex(ex *Exec) int {
	n := ex.P.Pkg.Type("Condition").Object().Type().(*types.Named)
	for i := 0; i < n.NumMethods(); i++ {
		if n.Method(i).Name() == "String" {
			return i
		}
	}
	return 0
}

// bigMul multiplies two Level-A integers. A product of two symbolic values is abstracted
// by a fresh variable constrained by its interval and its zero-ness (a sound
// over-approximation that keeps the queries linear); the defining equation is kept in
// ex.defs and conjoined whenever a model is needed or an assertion fails under the
// abstraction, so that no spurious counterexample is ever reported.
func (ex *Exec) bigMul(x, y IntV) IntV {
	if x.IsConst() && y.IsConst() {
		if os.Getenv("VERIF_BIGLOG") != "" && x.Const().BitLen()+y.Const().BitLen() > 20000 {
			fmt.Printf("BIGMUL %d x %d bits at %s\n", x.Const().BitLen(), y.Const().BitLen(), ex.where())
		}
		return ConstBig(new(big.Int).Mul(x.Const(), y.Const()))
	}
	xlo, xhi := ex.bounds(x)
	ylo, yhi := ex.bounds(y)
	lo, hi := mulInterval(xlo, xhi, ylo, yhi)
	if x.IsConst() || y.IsConst() || ex.Opt.Params["exactMul"] == "1" {
		return IntV{T: Mul(x.T, y.T), Lo: lo, Hi: hi}
	}
	exact := Mul(x.T, y.T)
	if ex.prodMemo == nil {
		ex.prodMemo = map[*Term]*Term{}
	}
	p, ok := ex.prodMemo[exact]
	if !ok {
		p = ex.freshVar("prod", SInt)
		ex.prodMemo[exact] = p
		ex.defs = append(ex.defs, Eq(p, exact))
		if lo != nil {
			ex.assumeT(Le(IntConst(lo), p))
		}
		if hi != nil {
			ex.assumeT(Le(p, IntConst(hi)))
		}
		zero := IntConst64(0)
		ex.assumeT(Eq(Eq(p, zero), Or(Eq(x.T, zero), Eq(y.T, zero))))
		// monotone lower bounds that keep digit counts honest: |p| >= |x| and |p| >= |y| when both non-zero
		if xlo != nil && xlo.Sign() >= 0 && ylo != nil && ylo.Sign() >= 0 {
			ex.assumeT(Implies(Le(IntConst64(1), y.T), Le(x.T, p)))
			ex.assumeT(Implies(Le(IntConst64(1), x.T), Le(y.T, p)))
		}
	}
	return IntV{T: p, Lo: lo, Hi: hi}
}

func init() {
	intercepts[apdP+"verifDigits"] = func(ex *Exec, a []Value, c *ssa.CallCommon) Value {
		x := ex.bigAbs(ex.load(a[0].(PtrV)).(IntV))
		return ex.newByteSlice(ex.bigDigits(x))
	}
}

func init() {
	intercepts[apdP+"noescape"] = func(ex *Exec, a []Value, c *ssa.CallCommon) Value { return a[0] }
}

func init() {
	// apd.asciiLower (the parser's ASCII-only lowering) is summarised by its contract, one
	// ite per byte, so that the parser harnesses do not fork three ways on every byte. The
	// contract is discharged against the real code by the VerifAsciiLower harness
	// (param realAsciiLower=1 runs the real loop).
	intercepts[apdP+"asciiLower"] = func(ex *Exec, a []Value, c *ssa.CallCommon) Value {
		if ex.Opt.Params["realAsciiLower"] == "1" {
			return ex.callReal(ex.P.Pkg.Func("asciiLower"), a)
		}
		s := a[0].(StrV)
		out := make([]*Term, len(s.B))
		for i, b := range s.B {
			if _, isDigit := ex.digOrigin[b]; isDigit {
				out[i] = b // a digit printed from an integer: '0'..'9' by construction
				continue
			}
			out[i] = Ite(And(Le(IntConst64('A'), b), Le(b, IntConst64('Z'))), Add(b, IntConst64(32)), b)
		}
		return StrV{B: out}
	}
}
