//go:build verif

package apd

// Common epilogue of the single-rounding operation harnesses.
func verifArithEpilogue(tag string, c *Context, neg bool, N, D *BigInt, e int64, d *Decimal, res Condition, err error) {
	verifCheckFrozen()
	val, flg, fit := verifSpecResultQ(c, neg, N, D, e, d, res)
	verifAssert(val, "C01."+tag+".value")
	verifAssert(flg, "C02."+tag+".flags")
	verifAssert(fit, "C07."+tag+".fit")
	verifAssert(verifErrSpec(c, res, err), "C03."+tag+".err")
	if verifParamInt("regime") == 0 {
		verifAssert(res&(SystemOverflow|SystemUnderflow) == 0, "C02."+tag+".nosystem")
	}
	verifObserveOut(tag, d, res, err)
	if res.Subnormal() {
		verifCover(tag + ".subnormal")
	}
	if res.Overflow() {
		verifCover(tag + ".overflow")
	}
	if res.Inexact() {
		verifCover(tag + ".inexact")
	}
}

// VerifAdd: Context.Add / Context.Sub (param sub=1) on arbitrary finite operands.
func VerifAdd() {
	c := verifCtx()
	sub := verifParamInt("sub") == 1
	var x, y, d Decimal
	verifFinite("x", &x)
	verifFinite("y", &y)
	verifHavoc("d0", &d)
	verifFreezeDecimal(&x, "operand")
	verifFreezeDecimal(&y, "operand")
	verifFreezeContext(c, "context")

	var res Condition
	var err error
	tag := "add"
	if sub {
		tag = "sub"
		res, err = c.Sub(&d, &x, &y)
	} else {
		res, err = c.Add(&d, &x, &y)
	}

	// exact sum over integers at the smaller exponent
	g := verifConcretize(int64(x.Exponent) - int64(y.Exponent))
	var a, b, t, N BigInt
	e := int64(y.Exponent)
	if g >= 0 {
		verifPow10(&t, g)
		a.Mul(&x.Coeff, &t)
		b.Set(&y.Coeff)
	} else {
		e = int64(x.Exponent)
		verifPow10(&t, -g)
		a.Set(&x.Coeff)
		b.Mul(&y.Coeff, &t)
	}
	yneg := y.Negative != sub
	neg := x.Negative
	if x.Negative == yneg {
		N.Add(&a, &b) // |x|+|y| with the common sign (a zero sum keeps it: -0 + -0 = -0)
	} else {
		N.Sub(&a, &b)
		switch N.Sign() {
		case -1:
			N.Neg(&N)
			neg = !neg
		case 0:
			// exact zero from operands of opposite sign: +0, except -0 under round-floor
			neg = c.Rounding == RoundFloor
		}
	}
	verifArithEpilogue(tag, c, neg, &N, bigOne, e, &d, res, err)
}

// VerifMul: Context.Mul on arbitrary finite operands.
func VerifMul() {
	c := verifCtx()
	var x, y, d Decimal
	verifFinite("x", &x)
	verifFinite("y", &y)
	verifHavoc("d0", &d)
	verifFreezeDecimal(&x, "operand")
	verifFreezeDecimal(&y, "operand")
	verifFreezeContext(c, "context")

	res, err := c.Mul(&d, &x, &y)

	var N BigInt
	N.Mul(&x.Coeff, &y.Coeff)
	verifArithEpilogue("mul", c, x.Negative != y.Negative, &N, bigOne, int64(x.Exponent)+int64(y.Exponent), &d, res, err)
}

// VerifQuo: Context.Quo on arbitrary finite operands with a non-zero divisor.
func VerifQuo() {
	c := verifCtx()
	var x, y, d Decimal
	verifFinite("x", &x)
	verifDivisor("y", &y)
	verifHavoc("d0", &d)
	verifFreezeDecimal(&x, "operand")
	verifFreezeDecimal(&y, "operand")
	verifFreezeContext(c, "context")

	res, err := c.Quo(&d, &x, &y)
	if c.Precision == 0 {
		// documented: Quo needs a positive precision and reports an error otherwise
		verifAssert(err != nil, "C04.quo.zero_precision_is_error")
		return
	}

	verifArithEpilogue("quo", c, x.Negative != y.Negative, &x.Coeff, &y.Coeff, int64(x.Exponent)-int64(y.Exponent), &d, res, err)
}

// VerifAbsNeg: Context.Abs (op=abs) and Context.Neg (op=neg).
func VerifAbsNeg() {
	c := verifCtx()
	op := verifParamStr("op")
	var x, d Decimal
	verifFinite("x", &x)
	verifHavoc("d0", &d)
	verifFreezeDecimal(&x, "operand")
	verifFreezeContext(c, "context")
	var res Condition
	var err error
	neg := false
	if op == "abs" {
		res, err = c.Abs(&d, &x)
	} else {
		res, err = c.Neg(&d, &x)
		// GDA minus is 0 - x: the negation of a zero is +0 (-0 only under round-floor for +0 operand)
		neg = verifAnd(!x.Negative, x.Coeff.Sign() != 0)
		if x.Coeff.Sign() == 0 {
			verifCover("neg.zero")
		}
	}
	verifArithEpilogue(op, c, neg, &x.Coeff, bigOne, int64(x.Exponent), &d, res, err)
}
