//go:build verif

package apd

// VerifDivInt: QuoInteger and Rem on finite x and non-zero finite y satisfy the division
// identity over the upscaled integers (C10, with C02/C03/C07 side conditions).
func VerifDivInt() {
	c := verifCtx()
	var x, y, q, r Decimal
	verifFinite("x", &x)
	verifDivisor("y", &y)
	verifHavoc("d0", &q)
	verifHavoc("d1", &r)
	verifFreezeDecimal(&x, "operand")
	verifFreezeDecimal(&y, "operand")
	verifFreezeContext(c, "context")
	P := int64(c.Precision)

	qres, qerr := c.QuoInteger(&q, &x, &y)
	rres, rerr := c.Rem(&r, &x, &y)
	verifCheckFrozen()
	if c.Precision == 0 {
		// documented: the division operations need a positive precision
		verifAssert(qerr != nil, "C04.quoint.zero_precision_is_error")
		return
	}
	verifObserveOut("quoint", &q, qres, qerr)
	verifObserveOut("rem", &r, rres, rerr)
	verifAssert(verifErrSpec(c, qres, qerr), "C03.quoint.err")
	verifAssert(verifErrSpec(c, rres, rerr), "C03.rem.err")

	// upscaled integers a = |x| and b = |y| at the common exponent s = min(xe, ye)
	g := verifConcretize(int64(x.Exponent) - int64(y.Exponent))
	var a, b, t BigInt
	s := int64(y.Exponent)
	if g >= 0 {
		verifPow10(&t, g)
		a.Mul(&x.Coeff, &t)
		b.Set(&y.Coeff)
	} else {
		s = int64(x.Exponent)
		verifPow10(&t, -g)
		a.Set(&x.Coeff)
		b.Mul(&y.Coeff, &t)
	}
	// qi = floor(a / b): characterised on whichever method returned it
	var lim BigInt
	verifPow10(&lim, P)

	if q.Form == Finite {
		var qb, qb1 BigInt
		qb.Mul(&q.Coeff, &b)
		qb1.Add(&qb, &b)
		verifAssert(verifAnd(qb.Cmp(&a) <= 0, a.Cmp(&qb1) < 0), "C10.quoint.value")
		verifAssert(q.Exponent == 0, "C10.quoint.exponent")
		verifAssert(q.Negative == (x.Negative != y.Negative), "C10.quoint.sign")
		verifAssert(q.Coeff.Cmp(&lim) < 0, "C10.quoint.digits") // otherwise DivisionImpossible was due
		verifAssert(qres == 0, "C10.quoint.flags")
		verifAssert(qres == 0, "C02.quoint.flags")
		verifAssert(verifFit(c, &q), "C07.quoint.fit")
		verifCover("quoint.finite")
	} else {
		verifAssert(verifAnd(q.Form == NaN, qres == DivisionImpossible), "C10.quoint.impossible")
		verifAssert(qres == DivisionImpossible, "C02.quoint.impossible_flag")
		// DivisionImpossible only when the integer quotient really needs more than P digits: a >= 10^P * b
		var lb BigInt
		lb.Mul(&lim, &b)
		verifAssert(a.Cmp(&lb) >= 0, "C10.quoint.impossible_iff")
		verifAssert(a.Cmp(&lb) >= 0, "C02.quoint.impossible_only_when_due")
		verifCover("quoint.impossible")
	}
	// both methods agree on when the division is impossible
	verifAssert((q.Form == Finite) == (rres&DivisionImpossible == 0), "C10.agree")

	if rres&DivisionImpossible != 0 {
		verifAssert(r.Form == NaN, "C10.rem.impossible")
		return
	}
	if q.Form != Finite {
		return
	}
	// exact remainder rem = a - q*b (0 <= rem < b), value sign(x) * rem * 10^s, then rounded to the context
	var qb, rem BigInt
	qb.Mul(&q.Coeff, &b)
	rem.Sub(&a, &qb)
	val, flg, fit := verifSpecResultQ(c, x.Negative, &rem, bigOne, s, &r, rres)
	verifAssert(val, "C10.rem.value")
	verifAssert(flg, "C02.rem.flags")
	verifAssert(fit, "C07.rem.fit")
	if rres.Inexact() {
		verifCover("rem.rounded")
	}
}
