import sys, time
from z3 import *
K=int(sys.argv[1]); mode=sys.argv[2]
c=Int('c'); P=Int('P'); neg=Bool('neg')
def nd_of(x,K):
    r=IntVal(K+1)
    for k in range(K,0,-1):
        r=If(x<10**k, IntVal(k), r)
    return r
def pow10(k,K):
    r=IntVal(10**K)
    for i in range(K-1,-1,-1):
        r=If(k==i, IntVal(10**i), r)
    return r
s=Solver()
s.add(c>=0,c<10**K,P>=1,P<=K)
nd=nd_of(c,K)
diff=nd-P
e=pow10(diff,K)
y=Int('y'); m=Int('m')
s.add(Implies(diff>0, And(c==y*e+m, m>=0, m<e)))
# half
half=If(2*m<e,-1,If(2*m==e,0,1))
def addone(mode,y,neg,half):
    if mode=='down': return BoolVal(False)
    if mode=='up': return BoolVal(True)
    if mode=='half_up': return half>=0
    if mode=='half_down': return half>0
    if mode=='half_even': return Or(half>0, And(half==0, y%2==1))
    if mode=='ceiling': return Not(neg)
    if mode=='floor': return neg
    if mode=='05up': return Or(y%5==0)
inc=And(m!=0, addone(mode,y,neg,half))
y2=If(inc,y+1,y)
carry=nd_of(y2,K)>nd_of(y,K)
yf=If(And(inc,carry), y2/10, y2)
d2=If(And(inc,carry), diff+1, diff)
rc=If(diff>0,yf,c); rexp=If(diff>0,d2,0)
# spec: rc*10^rexp relates to c
sc=rc*pow10(rexp,K+1)
ulp=pow10(rexp,K+1)
ok_repr=And(rc<pow10(P,K+1))
if mode=='down': rel=And(sc<=c, c<sc+ulp)
elif mode=='up': rel=And(sc>=c, sc-ulp<c)
elif mode in('half_up','half_down','half_even'): rel=And(2*(c-sc)<=ulp, 2*(sc-c)<=ulp)
elif mode=='ceiling': rel=If(neg, And(sc<=c, c<sc+ulp), And(sc>=c, sc-ulp<c))
elif mode=='floor': rel=If(Not(neg), And(sc<=c, c<sc+ulp), And(sc>=c, sc-ulp<c))
else: rel=BoolVal(True)
s.add(Not(And(ok_repr,rel)))
t=time.time(); r=s.check(); print(K,mode,r,round(time.time()-t,2))
if r==sat: print(s.model())
