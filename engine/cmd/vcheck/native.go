package main

import (
	"encoding/json"
	"fmt"
	"os"
	"os/exec"
	"path/filepath"
	"strings"
)

// Case is one native replay case (same shape as verifCaseT in the harness).
type Case struct {
	Harness string            `json:"harness"`
	Params  map[string]string `json:"params"`
	Inputs  map[string]string `json:"inputs"`
}

type NativeResult struct {
	Ran       bool              `json:"ran"`
	Failed    []string          `json:"failed"`
	Covers    []string          `json:"covers"`
	Known     []string          `json:"known"`
	Observed  map[string]string `json:"observed"`
	Panic     string            `json:"panic"`
	AssumeOut bool              `json:"assume_out"`
	Hang      bool              `json:"hang"`
}

// Native is the harness compiled natively against /repo's working tree (go test -overlay).
type Native struct {
	dir string
	bin string
}

func goEnv() []string {
	return append(os.Environ(), "GOFLAGS=-mod=mod", "GOPROXY=off", "GOSUMDB=off", "GOTOOLCHAIN=local")
}

func buildNative(scratch string) (*Native, error) {
	files, _ := filepath.Glob(filepath.Join(harnessDir, "*.go"))
	repl := map[string]string{}
	for _, f := range files {
		repl[filepath.Join(repoDir, "zz_verif_"+filepath.Base(f))] = f
	}
	ov, _ := json.Marshal(map[string]interface{}{"Replace": repl})
	ovf := filepath.Join(scratch, "overlay.json")
	if err := os.WriteFile(ovf, ov, 0o644); err != nil {
		return nil, err
	}
	bin := filepath.Join(scratch, "apd.verif.test")
	cmd := exec.Command("go", "test", "-c", "-vet=off", "-tags", "verif", "-overlay", ovf, "-o", bin, ".")
	cmd.Dir = repoDir
	cmd.Env = goEnv()
	out, err := cmd.CombinedOutput()
	if err != nil {
		return nil, fmt.Errorf("native build failed: %v\n%s", err, out)
	}
	return &Native{dir: scratch, bin: bin}, nil
}

var nativeSeq int

// Run executes the cases natively; a hanging case ends its process and the rest continue in a new one.
func (n *Native) Run(cases []Case, timeoutMs int) ([]NativeResult, error) {
	results := make([]NativeResult, len(cases))
	start := 0
	for start < len(cases) {
		nativeSeq++
		in := filepath.Join(n.dir, fmt.Sprintf("in%d.json", nativeSeq))
		out := filepath.Join(n.dir, fmt.Sprintf("out%d.json", nativeSeq))
		b, _ := json.Marshal(cases[start:])
		os.WriteFile(in, b, 0o644)
		cmd := exec.Command(n.bin, "-test.run", "^TestVerifReplay$", "-test.timeout", "0")
		cmd.Dir = repoDir
		cmd.Env = append(os.Environ(), "VERIF_REPLAY_IN="+in, "VERIF_REPLAY_OUT="+out, fmt.Sprintf("VERIF_REPLAY_TIMEOUT_MS=%d", timeoutMs))
		cout, _ := cmd.CombinedOutput()
		rb, err := os.ReadFile(out)
		if err != nil {
			return nil, fmt.Errorf("native run produced no output: %v\n%s", err, cout)
		}
		var rs []NativeResult
		if err := json.Unmarshal(rb, &rs); err != nil {
			return nil, err
		}
		os.Remove(in)
		os.Remove(out)
		progressed := 0
		for i, r := range rs {
			if !r.Ran {
				break
			}
			results[start+i] = r
			progressed++
			if r.Hang {
				break
			}
		}
		if progressed == 0 {
			return nil, fmt.Errorf("native run made no progress:\n%s", cout)
		}
		start += progressed
	}
	return results, nil
}

func contains(xs []string, x string) bool {
	for _, y := range xs {
		if y == x {
			return true
		}
	}
	return false
}

func hasPrefixAny(xs []string, p string) bool {
	for _, y := range xs {
		if strings.HasPrefix(y, p) {
			return true
		}
	}
	return false
}
