package sym

import (
	"fmt"
	"go/types"
	"math/big"
	"os"
	"path/filepath"
	"sort"
	"strconv"
	"strings"
	"sync"
	"sync/atomic"
	"time"

	"golang.org/x/tools/go/packages"
	"golang.org/x/tools/go/ssa"
	"golang.org/x/tools/go/ssa/ssautil"
)

var errType types.Type

func basicType(name string) types.Type {
	return types.Universe.Lookup(name).Type()
}

// Load builds SSA for /repo with the harness files overlaid as /repo/zz_verif_*.go.
func Load(repo string, harnessDir string, levelB bool) (*Program, map[string]string, error) {
	overlay := map[string][]byte{}
	omap := map[string]string{}
	files, _ := filepath.Glob(filepath.Join(harnessDir, "*.go"))
	for _, f := range files {
		b, err := os.ReadFile(f)
		if err != nil {
			return nil, nil, err
		}
		if strings.HasSuffix(f, "_test.go") {
			omap[filepath.Join(repo, "zz_verif_"+filepath.Base(f))] = f
			continue
		}
		virt := filepath.Join(repo, "zz_verif_"+filepath.Base(f))
		overlay[virt] = b
		omap[virt] = f
	}
	cfg := &packages.Config{
		Mode:       packages.LoadAllSyntax,
		Dir:        repo,
		BuildFlags: []string{"-tags=verif"},
		Overlay:    overlay,
		Env:        append(os.Environ(), "GOFLAGS=-mod=mod", "GOPROXY=off", "GOSUMDB=off", "GOTOOLCHAIN=local"),
	}
	pkgs, err := packages.Load(cfg, ".")
	if err != nil {
		return nil, nil, err
	}
	if packages.PrintErrors(pkgs) > 0 {
		return nil, nil, fmt.Errorf("package load errors")
	}
	prog, spkgs := ssautil.AllPackages(pkgs, ssa.InstantiateGenerics)
	prog.Build()
	p := &Program{Prog: prog, Pkg: spkgs[0], Globals: map[*ssa.Global]*Object{}, LevelB: levelB}
	errType = types.NewPointer(types.NewNamed(types.NewTypeName(0, nil, "verifError", nil), types.NewStruct(nil, nil), nil))
	if err := p.runInit(); err != nil {
		return nil, nil, err
	}
	return p, omap, nil
}

// runInit interprets the package initialiser concretely.
func (p *Program) runInit() (err error) {
	ex := &Exec{P: p, Opt: &Options{MaxInstr: 1 << 40, MaxDecisions: 0, MaxDigits: 100000, Enabled: func(string) bool { return false }}, concrete: true, res: &PathResult{}}
	for _, m := range p.Pkg.Members {
		if g, ok := m.(*ssa.Global); ok {
			et := g.Type().(*types.Pointer).Elem()
			o := ex.newObject(ex.zeroInit(et), g.Name(), et)
			p.Globals[g] = o
		}
	}
	defer func() {
		if r := recover(); r != nil {
			if ps, ok := r.(pathStop); ok {
				err = fmt.Errorf("init interpretation stopped: %s %s", ps.reason, ps.msg)
				return
			}
			panic(r)
		}
	}()
	initFn := p.Pkg.Func("init")
	ex.runInitFn(initFn)
	for _, o := range ex.created {
		o.Global = true
	}
	return nil
}

func (ex *Exec) zeroInit(t types.Type) Value { return ex.zero(t) }

// runInitFn executes the synthesized package init, skipping other packages' inits.
func (ex *Exec) runInitFn(fn *ssa.Function) {
	// The synthesized init has the shape: if initdone goto done; initdone=true; dep.init()...; body
	old := intercepts
	_ = old
	ex.initMode = true
	ex.CallFn(fn, nil, nil)
	ex.initMode = false
}

// HarnessResult aggregates all paths of one harness instance.
type HarnessResult struct {
	Harness    string
	Params     map[string]string
	Paths      int
	EndCounts  map[string]int
	Covers     map[string]int
	Findings   []Finding
	stopped    bool
	AssertsOK  map[string]int
	AssertsUnk map[string]int
	Known      map[string]int
	Errors     []string
	Unwinds    []string
	Cuts       map[string]int
	MaybeInf   int
	Instr      int64
	PathModels []PathModel
	Funcs      map[string]bool
	MaxDec     int
}

type PathModel struct {
	Inputs   map[string]string
	Observed map[string]string
}

type pendingAssert struct {
	c  *Term
	id string
}

// assertT queues an assertion; queued assertions are discharged together by
// flushAsserts before the next branch decision or at the end of the path.
func (ex *Exec) assertT(c *Term, id string) {
	if !ex.Opt.Enabled(id) {
		return
	}
	if c.IsTrue() {
		ex.res.AssertsOK[id]++
		return
	}
	ex.pending = append(ex.pending, pendingAssert{c, id})
}

func (ex *Exec) flushAsserts() {
	if len(ex.pending) == 0 {
		return
	}
	pend := ex.pending
	ex.pending = nil
	if len(pend) > 1 {
		cs := make([]*Term, len(pend))
		for i, p := range pend {
			cs[i] = p.c
		}
		if r, _ := ex.check(Not(And(cs...)), nil); r == Unsat {
			for _, p := range pend {
				ex.res.AssertsOK[p.id]++
				ex.assumeT(p.c)
			}
			return
		}
	}
	for _, p := range pend {
		ex.assertOne(p.c, p.id)
	}
}

// assertOne discharges one assertion: PC ∧ ¬c must be unsat.
func (ex *Exec) assertOne(c *Term, id string) {
	r, m := ex.check(Not(c), ex.inputTerms())
	if r == Sat && len(ex.defs) > 0 {
		// failed under the product abstraction: decide with the exact definitions
		r, m = ex.check(And(append([]*Term{Not(c)}, ex.defs...)...), ex.inputTerms())
	}
	switch r {
	case Unsat:
		ex.res.AssertsOK[id]++
		ex.assumeT(c)
		return
	case Unknown:
		ex.res.AssertsUnk[id]++
	case Sat:
		f := Finding{ID: id, Kind: "assert", Msg: "assertion " + id + " can fail", Inputs: ex.modelToInputs(m), Where: ex.where()}
		ex.res.Findings = append(ex.res.Findings, f)
	}
	// continue under the assumption that the assertion held
	if c.IsFalse() {
		ex.stop("assume", "after failed assertion")
	}
	if r2, _ := ex.check(c, nil); r2 == Unsat {
		ex.stop("assume", "after failed assertion")
	}
	ex.model = nil
	ex.assumeT(c)
}

func (p *Program) runPath(opt *Options, s *Solver, fn *ssa.Function, prefix []Dec) (res *PathResult, forks [][]Dec) {
	s.BeginPath()
	ex := &Exec{P: p, Opt: opt, S: s, prefix: prefix}
	ex.res = &PathResult{AssertsOK: map[string]int{}, AssertsUnk: map[string]int{}}
	res = ex.res
	defer func() {
		forks = ex.forks
		res.Decisions = len(ex.trace)
		res.Instr = ex.instr
		if r := recover(); r != nil {
			ps, ok := r.(pathStop)
			if !ok {
				res.End = "error"
				res.EndMsg = fmt.Sprintf("engine panic: %v (%s)", r, ex.where())
				return
			}
			res.End, res.EndMsg = ps.reason, ps.msg
		}
	}()
	ex.CallFn(fn, nil, nil)
	ex.flushAsserts()
	res.End = "return"
	if opt.PathModels {
		want := ex.inputTerms()
		for _, o := range ex.obs {
			if o.Kind == "str" {
				want = append(want, o.Str...)
			} else {
				want = append(want, o.T)
			}
		}
		var extra *Term
		if len(ex.defs) > 0 {
			extra = And(ex.defs...)
		}
		r, m := ex.S.Check(ex.pc, extra, want)
		if r == Sat && len(ex.modelToInputs(m)) < len(ex.inputs) {
			// the solver's get-value answer did not cover every input (seen under heavy load):
			// no usable model, this path is simply not part of the validation sample
			atomic.AddInt64(&GStats.IncompleteModels, 1)
			r = Unknown
		}
		if r == Sat {
			res.Model = ex.modelToInputs(m)
			res.Observed = map[string]string{}
			for _, o := range ex.obs {
				switch o.Kind {
				case "str":
					bs := make([]byte, len(o.Str))
					ok := true
					for i, t := range o.Str {
						v := lookupModel(m, t)
						if v == nil {
							ok = false
							break
						}
						bs[i] = byte(v.Int64())
					}
					if ok {
						res.Observed[o.Name] = string(bs)
					}
				default:
					v := lookupModel(m, o.T)
					if v != nil {
						if o.T.Sort == SBool {
							if v.Sign() != 0 {
								res.Observed[o.Name] = "true"
							} else {
								res.Observed[o.Name] = "false"
							}
						} else {
							res.Observed[o.Name] = v.String()
						}
					}
				}
			}
		}
	}
	return
}

func lookupModel(m map[string]*big.Int, t *Term) *big.Int {
	if t.IsConst() {
		return t.Val
	}
	return m[t.SMT()]
}

// Pool is a set of solver workers shared by all harness instances of a run.
type Pool struct {
	mu     sync.Mutex
	cond   *sync.Cond
	queue  []func(*Solver)
	closed bool
	wg     sync.WaitGroup
}

func NewPool(solvers []*Solver) *Pool {
	p := &Pool{}
	p.cond = sync.NewCond(&p.mu)
	for _, s := range solvers {
		p.wg.Add(1)
		go func(s *Solver) {
			defer p.wg.Done()
			for {
				p.mu.Lock()
				for len(p.queue) == 0 && !p.closed {
					p.cond.Wait()
				}
				if len(p.queue) == 0 && p.closed {
					p.mu.Unlock()
					return
				}
				job := p.queue[len(p.queue)-1]
				p.queue = p.queue[:len(p.queue)-1]
				p.mu.Unlock()
				job(s)
			}
		}(s)
	}
	return p
}

func (p *Pool) Submit(job func(*Solver)) {
	p.mu.Lock()
	p.queue = append(p.queue, job)
	p.mu.Unlock()
	p.cond.Signal()
}

func (p *Pool) Close() {
	p.mu.Lock()
	p.closed = true
	p.mu.Unlock()
	p.cond.Broadcast()
	p.wg.Wait()
}

// RunHarness explores all paths of the harness function under opt on its own solvers.
func (p *Program) RunHarness(opt *Options) *HarnessResult {
	pool := NewPool(opt.Solvers)
	defer pool.Close()
	return p.RunHarnessOn(opt, pool)
}

// RunHarnessOn explores all paths of the harness function, scheduling paths on a shared pool.
func (p *Program) RunHarnessOn(opt *Options, pool *Pool) *HarnessResult {
	fn := p.Pkg.Func(opt.Harness)
	hr := &HarnessResult{Harness: opt.Harness, Params: opt.Params, EndCounts: map[string]int{}, Covers: map[string]int{},
		AssertsOK: map[string]int{}, AssertsUnk: map[string]int{}, Known: map[string]int{}, Cuts: map[string]int{}, Funcs: map[string]bool{}}
	if fn == nil {
		hr.Errors = append(hr.Errors, "no such harness function: "+opt.Harness)
		return hr
	}
	if opt.MaxDecisions == 0 {
		opt.MaxDecisions = 600
	}
	if opt.MaxInstr == 0 {
		opt.MaxInstr = 20_000_000
	}
	if opt.MaxDigits == 0 {
		opt.MaxDigits = 80
	}
	if opt.FeasTimeoutMs == 0 {
		opt.FeasTimeoutMs = 1500
	}
	if opt.MaxPaths == 0 {
		opt.MaxPaths = 400000
	}
	// wall-clock budget of one instance (param timeBudget, seconds): the unchanged tree needs at
	// most a few minutes per instance; changed code can make the path space or the queries
	// explode, and a run that never ends decides nothing
	budget := 7200 * time.Second
	if v, err := strconv.Atoi(os.Getenv("VERIF_TIME_BUDGET")); err == nil && v > 0 {
		budget = time.Duration(v) * time.Second
	}
	if v, err := strconv.Atoi(opt.Params["timeBudget"]); err == nil && v > 0 {
		budget = time.Duration(v) * time.Second
	}
	var started time.Time // set when the instance's first path starts to run, not when it is queued
	timedOut := false
	var mu sync.Mutex
	done := make(chan struct{})
	outstanding := 1
	submitted := 1
	var run func(prefix []Dec) func(*Solver)
	run = func(prefix []Dec) func(*Solver) {
		return func(s *Solver) {
			mu.Lock()
			if started.IsZero() {
				started = time.Now()
			}
			mu.Unlock()
			res, forks := p.runPath(opt, s, fn, prefix)
			mu.Lock()
			hr.Paths++
			hr.merge(res, opt)
			var todo [][]Dec
			if !timedOut && time.Since(started) > budget {
				timedOut = true
				hr.Unwinds = append(hr.Unwinds, fmt.Sprintf("time budget of %s exceeded for this instance: exploration stopped", budget))
			}
			if timedOut {
				forks = nil
			}
			if len(hr.Findings) >= 40 {
				// enough counterexamples for this instance: further exploration cannot change the
				// verdict (confirmed ones make the check fail, unconfirmed ones leave it undecided)
				if len(forks) > 0 && !hr.stopped {
					hr.stopped = true
					hr.Unwinds = append(hr.Unwinds, "exploration stopped after 40 findings in this instance")
				}
				forks = nil
			}
			for _, f := range forks {
				if submitted < opt.MaxPaths {
					submitted++
					outstanding++
					todo = append(todo, f)
				} else if len(hr.Unwinds) < 3 {
					hr.Unwinds = append(hr.Unwinds, "path budget exceeded")
				}
			}
			outstanding--
			fin := outstanding == 0
			mu.Unlock()
			for _, f := range todo {
				pool.Submit(run(f))
			}
			if fin {
				close(done)
			}
		}
	}
	pool.Submit(run(nil))
	<-done
	return hr
}

func (hr *HarnessResult) merge(r *PathResult, opt *Options) {
	hr.EndCounts[r.End]++
	hr.Instr += r.Instr
	if r.Decisions > hr.MaxDec {
		hr.MaxDec = r.Decisions
	}
	for _, c := range r.Covers {
		hr.Covers[c]++
	}
	for k, v := range r.AssertsOK {
		hr.AssertsOK[k] += v
	}
	for k, v := range r.AssertsUnk {
		hr.AssertsUnk[k] += v
	}
	for _, k := range r.Known {
		hr.Known[k]++
	}
	for f := range r.Funcs {
		hr.Funcs[f] = true
	}
	hr.Findings = append(hr.Findings, r.Findings...)
	if r.MaybeInfeas {
		hr.MaybeInf++
	}
	switch r.End {
	case "error":
		if len(hr.Errors) < 20 {
			hr.Errors = append(hr.Errors, r.EndMsg)
		}
	case "unwind":
		if len(hr.Unwinds) < 20 {
			hr.Unwinds = append(hr.Unwinds, r.EndMsg)
		}
	case "cut_float", "cut_nonascii":
		hr.Cuts[r.End]++
	}
	if r.End == "return" && r.Model != nil && len(hr.PathModels) < 4000 {
		hr.PathModels = append(hr.PathModels, PathModel{Inputs: r.Model, Observed: r.Observed})
	}
}

func (hr *HarnessResult) SortedCovers() []string {
	var ks []string
	for k := range hr.Covers {
		ks = append(ks, k)
	}
	sort.Strings(ks)
	return ks
}
