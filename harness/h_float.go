//go:build verif

package apd

import "math"

// VerifFloat64: Decimal.Float64 returns the float64 nearest to the decimal value (C17), for
// every finite decimal with up to K digits and an exponent in [elo, ehi]. The unchanged body
// is strconv.ParseFloat(d.String(), 64): ParseFloat is its documented contract (the nearest
// float64, ties to even, of the decimal value of the text), String is the real code, so what
// is decided on the unchanged tree is that the text handed to ParseFloat denotes exactly d.
// Float arithmetic that a changed Float64 performs itself (conversion of the coefficient,
// multiplication or division by a constant power of ten) is evaluated exactly, see
// /verif/engine/sym/float.go.
func VerifFloat64() {
	var x Decimal
	K := verifParamInt("K")
	verifNondetCoeff("xc", &x.Coeff, int(K))
	x.Exponent = int32(verifConcretize(verifNondetInt("xe", verifParamInt("elo"), verifParamInt("ehi"))))
	x.Negative = verifNondetBool("xneg")
	x.Form = Finite
	verifFreezeDecimal(&x, "operand")
	f, err := x.Float64()
	verifCheckFrozen()
	verifObserveBool("err", err != nil)
	verifAssert(err == nil, "C17.float64.spurious_error")
	if err != nil {
		return
	}
	verifObserveFloat("f", f)
	verifAssert(verifFloatNearest(f, x.Negative, &x.Coeff, int64(x.Exponent)), "C17.float64.nearest")
	verifCover("float64.ok")
}

// VerifFloatRound: SetFloat64 followed by Float64 returns the original float64 (C13), and the
// decimal SetFloat64 stores is a finite decimal whose nearest float64 is the argument. Normal
// numbers: sign, every 53-bit significand and each binary exponent in [klo, khi] (one instance
// per exponent range); zeros, infinities and NaN run concretely (spec parameter).
// strconv.AppendFloat(f, 'E', -1, 64) is its contract (some 1..17-digit decimal that rounds to
// f), strconv.ParseFloat its contract (nearest float64); SetString, String and the plumbing in
// between are the real code.
func VerifFloatRound() {
	var f float64
	switch verifParamStr("spec") {
	case "zero":
		f = 0
	case "negzero":
		f = math.Copysign(0, -1)
	case "inf":
		f = math.Inf(1)
	case "neginf":
		f = math.Inf(-1)
	case "nan":
		f = math.NaN()
	default:
		var m BigInt
		verifNondetBig("fm", &m, "4503599627370496", "9007199254740991")
		k := verifConcretize(verifNondetInt("fk", verifParamInt("klo"), verifParamInt("khi")))
		f = verifMakeFloat(verifNondetBool("fneg"), &m, k)
	}
	var d Decimal
	verifHavoc("d", &d)
	_, err := d.SetFloat64(f)
	verifObserveBool("seterr", err != nil)
	verifAssert(err == nil, "C13.float.set_error")
	if err != nil {
		return
	}
	if math.IsNaN(f) {
		verifAssert(d.Form == NaN, "C13.float.nan_form")
	} else if math.IsInf(f, 0) {
		verifAssert(verifAnd(d.Form == Infinite, d.Negative == (f < 0)), "C13.float.inf_form")
	} else {
		verifAssert(d.Form == Finite, "C13.float.finite_form")
		verifAssert(verifFloatNearest(f, d.Negative, &d.Coeff, int64(d.Exponent)), "C13.float.stored_value_rounds_to_f")
	}
	g, err2 := d.Float64()
	verifObserveBool("geterr", err2 != nil)
	verifAssert(err2 == nil, "C13.float.get_error")
	if err2 != nil {
		return
	}
	if math.IsNaN(f) {
		verifAssert(math.IsNaN(g), "C13.float.roundtrip")
	} else {
		verifObserveFloat("g", g)
		verifAssert(verifFloatSame(f, g), "C13.float.roundtrip")
	}
	verifCover("float.roundtrip")
}
