// vcheck drives the solver-based checks of /verif against /repo's working tree.
package main

import (
	"encoding/json"
	"fmt"
	"os"
	"runtime/pprof"
	"sort"
	"strings"
	"time"

	"verif/engine/sym"
)

// Directories. The registered commands run against /repo and /verif; the overrides exist so
// that long background runs (vp run --with-repo) can work on snapshots.
var (
	repoDir    = envOr("VERIF_REPO", "/repo")
	verifDir   = envOr("VERIF_DIR", "/verif")
	harnessDir = envOr("VERIF_DIR", "/verif") + "/harness"
)

func envOr(k, def string) string {
	if v := os.Getenv(k); v != "" {
		return v
	}
	return def
}

func usage() {
	fmt.Fprintln(os.Stderr, `usage:
  vcheck run <property> [--tier quick|thorough]
  vcheck harness <Harness> [k=v ...] [--enable prefix,...] [--workers n] [--v]
  vcheck replay <file>
  vcheck selftest`)
	os.Exit(2)
}

func main() {
	if len(os.Args) < 2 {
		usage()
	}
	switch os.Args[1] {
	case "harness":
		os.Exit(cmdHarness(os.Args[2:]))
	case "run":
		os.Exit(cmdRun(os.Args[2:]))
	case "replay":
		os.Exit(cmdReplay(os.Args[2:]))
	case "selftest":
		os.Exit(cmdSelftest(os.Args[2:]))
	}
	usage()
}

func solverBin() string {
	if b := os.Getenv("VERIF_SOLVER"); b != "" {
		return b
	}
	return "z3-new"
}

func mkSolvers(n, timeoutMs int) []*sym.Solver {
	ss := make([]*sym.Solver, n)
	for i := range ss {
		ss[i] = sym.NewSolver(solverBin(), timeoutMs)
	}
	return ss
}

func closeSolvers(ss []*sym.Solver) {
	for _, s := range ss {
		s.Close()
	}
}

func enabledFn(prefixes []string) func(string) bool {
	return func(id string) bool {
		for _, p := range prefixes {
			if p == "*" || strings.HasPrefix(id, p) {
				return true
			}
		}
		return false
	}
}

// cmdHarness runs one harness instance and prints a summary (development aid).
func cmdHarness(args []string) int {
	if len(args) < 1 {
		usage()
	}
	name := args[0]
	params := map[string]string{}
	enable := []string{"*"}
	workers := 8
	verbose := false
	levelB := false
	tmo := 20000
	for i := 1; i < len(args); i++ {
		a := args[i]
		switch {
		case a == "--enable":
			i++
			enable = strings.Split(args[i], ",")
		case a == "--workers":
			i++
			fmt.Sscan(args[i], &workers)
		case a == "--timeout":
			i++
			fmt.Sscan(args[i], &tmo)
		case a == "--v":
			verbose = true
		case a == "--levelB":
			levelB = true
		case strings.Contains(a, "="):
			kv := strings.SplitN(a, "=", 2)
			params[kv[0]] = kv[1]
		}
	}
	t0 := time.Now()
	prog, _, err := sym.Load(repoDir, harnessDir, levelB)
	if err != nil {
		fmt.Println("load error:", err)
		return 2
	}
	fmt.Printf("loaded in %.1fs\n", time.Since(t0).Seconds())
	kf := loadKnown()
	ss := mkSolvers(workers, tmo)
	defer closeSolvers(ss)
	opt := &sym.Options{Harness: name, Params: params, Enabled: enabledFn(enable), Known: kf.openSet(), Solvers: ss, PathModels: verbose, Portfolio: true}
	if v, ok := params["maxInstr"]; ok {
		fmt.Sscan(v, &opt.MaxInstr)
	}
	if v, ok := params["maxDecisions"]; ok {
		fmt.Sscan(v, &opt.MaxDecisions)
	}
	if v, ok := params["maxDigits"]; ok {
		fmt.Sscan(v, &opt.MaxDigits)
	}
	if pf := os.Getenv("VERIF_PPROF"); pf != "" {
		f, _ := os.Create(pf)
		pprof.StartCPUProfile(f)
		defer pprof.StopCPUProfile()
	}
	t1 := time.Now()
	hr := prog.RunHarness(opt)
	fmt.Printf("explored in %.1fs: paths=%d ends=%v instr=%d maxdec=%d maybeInfeasible=%d\n", time.Since(t1).Seconds(), hr.Paths, hr.EndCounts, hr.Instr, hr.MaxDec, hr.MaybeInf)
	fmt.Printf("solver: queries=%d sat=%d unsat=%d unknown=%d errors=%d time=%.1fs\n", sym.GStats.Queries, sym.GStats.SatN, sym.GStats.UnsatN, sym.GStats.UnknownN, sym.GStats.Errors, float64(sym.GStats.NanosInSolver)/1e9)
	fmt.Printf("asserts ok: %v\nasserts unknown: %v\ncovers: %v\nknown: %v cuts: %v\n", hr.AssertsOK, hr.AssertsUnk, hr.Covers, hr.Known, hr.Cuts)
	for _, e := range hr.Errors {
		fmt.Println("ENGINE-ERROR:", e)
	}
	for _, e := range hr.Unwinds {
		fmt.Println("UNWIND:", e)
	}
	byID := map[string][]sym.Finding{}
	for _, f := range hr.Findings {
		byID[f.ID] = append(byID[f.ID], f)
	}
	var ids []string
	for id := range byID {
		ids = append(ids, id)
	}
	sort.Strings(ids)
	for _, id := range ids {
		fs := byID[id]
		fmt.Printf("FINDING %s x%d e.g. %s where=%s inputs=%v\n", id, len(fs), fs[0].Msg, fs[0].Where, fs[0].Inputs)
	}
	if verbose {
		type kv struct {
			k string
			v int
		}
		var sites []kv
		for k, v := range sym.ForkSites {
			sites = append(sites, kv{k, v})
		}
		sort.Slice(sites, func(i, j int) bool { return sites[i].v > sites[j].v })
		for i, s := range sites {
			if i > 25 {
				break
			}
			fmt.Printf("FORKSITE %6d %s\n", s.v, s.k)
		}
		sites = nil
		for k, v := range sym.ForcedSites {
			sites = append(sites, kv{k, v})
		}
		sort.Slice(sites, func(i, j int) bool { return sites[i].v > sites[j].v })
		for i, s := range sites {
			if i > 25 {
				break
			}
			fmt.Printf("FORCEDSITE %6d %s\n", s.v, s.k)
		}
		for i, pm := range hr.PathModels {
			if i >= 5 {
				break
			}
			b, _ := json.Marshal(pm)
			fmt.Println("PATH", string(b))
		}
	}
	return 0
}
