package main

import (
	"fmt"
	"math/big"
)

// CheckDef describes how one property is decided.
type CheckDef struct {
	Prop            string
	Enable          []string // assertion-id prefixes this property owns
	Instances       func(tier string) []Instance
	RequireCovers   []string
	PathModels      bool
	PathModelSample int
	Stubs           []string
	Bounds          map[string]interface{}
	Outside         []string
	Assumptions     []string
}

var allModes = []string{"down", "half_up", "half_even", "ceiling", "floor", "half_down", "up", "05up", ""}

func p(kv ...interface{}) map[string]string {
	m := map[string]string{}
	for i := 0; i+1 < len(kv); i += 2 {
		m[fmt.Sprint(kv[i])] = fmt.Sprint(kv[i+1])
	}
	return m
}

func merge(a map[string]string, b map[string]string) map[string]string {
	m := map[string]string{}
	for k, v := range a {
		m[k] = v
	}
	for k, v := range b {
		m[k] = v
	}
	return m
}

var stubsLevelA = []string{
	"apd.BigInt methods (Set, SetInt64, SetUint64, Add, Sub, Mul, Quo, Rem, QuoRem, Cmp, CmpAbs, Sign, Abs, Neg, Bit, BitLen, IsUint64, IsInt64, Uint64, Int64, Exp, Lsh, Rsh, String, Append, SetString, Bytes, FillBytes, SetBytes): mathematical integers with math/big's documented semantics (T-division; division by zero is a panic obligation); their agreement with the real bigint.go code is the subject of C16",
	"apd.NumDigits: fork on 10^(n-1) <= |b| < 10^n (the real table.go code is executed and checked in C19)",
	"errors.New, fmt.Errorf: fresh non-nil error, message ignored",
	"(Condition).String inside error construction: empty body (formatting is not the subject; executed for real in the C04 harness)",
	"apd.asciiLower: summarised by its per-byte contract, which the VerifAsciiLower harness discharges on the real loop (C14); strings.ToLower (no longer called by the parser): exact on ASCII plus the two runes that lower-case to ASCII", "strings.HasPrefix/IndexByte, strconv.ParseInt/ParseUint/AppendInt/AppendUint (base 10): documented contracts",
}

var assumeCommon = []string{
	"go/ssa lowering of the Go source is faithful (x/tools v0.29.0); the gc build used for native replay agrees with it",
	"z3 5.1 answers are correct (unknown/timeout is reported as undecided, never as a pass)",
	"math/big, strconv, strings behave as documented (stub boundary)",
	"operands and contexts are well-formed as stated in the property's quantifier; everything outside the stated bounds is not claimed",
}

func inst(h string, w int, base map[string]string, kv ...interface{}) Instance {
	return Instance{Harness: h, Params: merge(base, p(kv...)), Weight: w}
}

// arithInstances: the single-rounding operations. Round carries all nine mode instances
// (the rounding decision is shared code); the other operations run under a representative
// subset in the quick tier and under all modes in the thorough tier.
func arithInstances(tier string, traps string) []Instance {
	var out []Instance
	quick := tier != "thorough"
	base := p("Pmin", 1, "regime", 0, "traps", traps)
	someModes := []string{"half_even", "floor", "up"}
	quoModes := []string{"half_even", "half_down", "ceiling", "05up"}
	if !quick {
		someModes, quoModes = allModes, allModes
	}
	if quick {
		for _, m := range allModes {
			out = append(out, inst("VerifRound", 6, base, "mode", m, "K", 5, "W", 7))
		}
		for _, m := range someModes {
			out = append(out, inst("VerifAdd", 9, base, "mode", m, "K", 2, "W", 2, "sub", 0))
			out = append(out, inst("VerifAdd", 9, base, "mode", m, "K", 2, "W", 2, "sub", 1))
			out = append(out, inst("VerifMul", 4, base, "mode", m, "K", 3, "W", 3))
			out = append(out, inst("VerifAbsNeg", 1, base, "mode", m, "K", 4, "W", 5, "op", "abs"))
			out = append(out, inst("VerifAbsNeg", 1, base, "mode", m, "K", 4, "W", 5, "op", "neg"))
		}
		for _, m := range quoModes {
			out = append(out, inst("VerifQuo", 10, base, "mode", m, "K", 3, "Kd", 1, "W", 3))
		}
		return out
	}
	for _, m := range allModes {
		out = append(out, inst("VerifRound", 8, base, "mode", m, "K", 9, "W", 12))
		out = append(out, inst("VerifAdd", 9, base, "mode", m, "K", 2, "W", 2, "sub", 0))
		out = append(out, inst("VerifAdd", 9, base, "mode", m, "K", 2, "W", 2, "sub", 1))
		out = append(out, inst("VerifMul", 5, base, "mode", m, "K", 3, "W", 3))
		out = append(out, inst("VerifAbsNeg", 1, base, "mode", m, "K", 7, "W", 10, "op", "abs"))
		out = append(out, inst("VerifAbsNeg", 1, base, "mode", m, "K", 7, "W", 10, "op", "neg"))
		out = append(out, inst("VerifQuo", 10, base, "mode", m, "K", 3, "Kd", 1, "W", 3))
	}
	return out
}

var checkDefs = map[string]*CheckDef{}

func init() {
	boundsArith := map[string]interface{}{
		"quick": map[string]interface{}{"Round": "K=5 digits, W=7 (operand exponent in [-W,W]; Emin in [-W,0], Emax in [0,W]), 9 modes",
			"Add/Sub": "K=2, W=2, modes half_even/floor/up", "Mul": "K=3, W=3, same modes", "Abs/Neg": "K=4, W=5",
			"Quo":       "dividend K=3 digits, divisor coefficient enumerated 1..9 (Kd=1), W=3, modes half_even/half_down/ceiling/05up",
			"precision": "1..K (each value)", "trap_sets": "Traps=0 (C01/C02/C07); all 2^32 trap words symbolic (C03)"},
		"thorough": map[string]interface{}{"Round": "K=9, W=12, 9 modes", "Add/Sub": "K=2, W=2, 9 modes", "Mul": "K=3, W=3, 9 modes", "Abs/Neg": "K=7, W=10",
			"Quo": "dividend K=3, divisor coefficient 1..9, W=3, 9 modes", "precision": "1..K",
			"note": "the thorough tier widens modes (all nine everywhere), Round/Abs/Neg digits, Quantize (K=6), two-digit divisors in QuoInteger/Rem, NumDigits (1100 bits), parser lengths and the special-value table; larger Add/Mul/Quo coefficient bounds were tried (K=3..5, divisors 1..99) and dropped because their run time under the 16-core budget could not be confirmed clean"},
	}
	outsideArith := []string{"coefficients with more than K digits", "exponents outside the stated windows (in particular the package limits +-100000: regimes 1/2 are thorough-only where listed)",
		"divisor coefficients beyond Kd digits (symbolic-by-symbolic division is enumerated over the divisor, not solved)",
		"Precision 0 except where an instance says Pmin=0", "context-aware parsing (covered with the parser in C14/C13)",
		"iterative functions (Sqrt, Cbrt, Exp, Ln, Log10, Pow): see not_applicable / per-property notes"}

	checkDefs["C01"] = &CheckDef{Prop: "C01", Enable: []string{"C01."},
		Instances: func(tier string) []Instance {
			out := append(append(arithInstances(tier, "zero"), p0Instances(tier)...), ctxParseInstances(tier, "zero")...)
			out = append(out, farGapInstances(tier, "zero")...)
			return append(out, limitInstances(tier)...)
		},
		PathModels: true, PathModelSample: 40, Stubs: stubsLevelA, Bounds: boundsArith, Outside: outsideArith, Assumptions: assumeCommon,
		RequireCovers: []string{"round.subnormal", "round.overflow", "round.inexact", "add.subnormal", "mul.overflow", "quo.subnormal", "quo.inexact"}}
	checkDefs["C02"] = &CheckDef{Prop: "C02", Enable: []string{"C02."},
		Instances: func(tier string) []Instance {
			// the deeper QuoInteger/Rem and Quantize bounds of the thorough tier live in C10 and C09
			out := append(arithInstances(tier, "zero"), divIntInstances("quick", "zero")...)
			if tier == "thorough" {
				out = append(out, p0Instances(tier)...)
				out = append(out, quantizeInstances("quick", "zero")...)
			} else {
				qb := p("Pmin", 1, "regime", 0, "traps", "zero", "K", 3, "W", 3)
				for _, m := range []string{"half_even", "up", "floor"} {
					out = append(out, inst("VerifQuantize", 5, qb, "mode", m, "op", "quantize"))
					out = append(out, inst("VerifQuantize", 1, qb, "mode", m, "op", "rti_exact"))
				}
			}
			out = append(out, ctxParseInstances(tier, "zero")[:4]...)
			out = append(out, farGapInstances(tier, "zero")...)
			out = append(out, limitInstances(tier)...)
			// Context.Reduce flags, and the Division*/InvalidOperation conditions on special operands
			for _, m := range []string{"half_even", "floor"} {
				out = append(out, inst("VerifReduce", 4, p("op", "ctx", "K", 4, "W", 4, "Pmin", 1, "regime", 0, "traps", "zero", "mode", m)))
			}
			sb := p("Pmin", 0, "regime", 0, "traps", "zero", "full", 0, "mode", "half_even", "K", 2, "W", 2)
			for _, op := range []string{"add", "sub", "mul", "quo", "quoint", "rem"} {
				out = append(out, inst("VerifSpecialBinary", 2, sb, "op", op))
			}
			for _, op := range []string{"round", "reduce", "quantize", "rti_exact", "sqrt"} {
				out = append(out, inst("VerifSpecialUnary", 1, sb, "op", op))
			}
			return out
		},
		PathModels: true, PathModelSample: 40, Stubs: stubsLevelA, Bounds: boundsArith, Outside: outsideArith, Assumptions: assumeCommon}
	checkDefs["C07"] = &CheckDef{Prop: "C07", Enable: []string{"C07."},
		Instances: func(tier string) []Instance {
			out := append(append(arithInstances(tier, "zero"), divIntInstances("quick", "zero")...), quantizeInstances("quick", "zero")...)
			out = append(out, ctxParseInstances(tier, "zero")...)
			// Context.Reduce beyond the uint64 coefficient path, and on heap-backed coefficients
			out = append(out, inst("VerifReduce", 4, p("op", "ctx", "K", 21, "W", 21, "Pmin", 20, "regime", 0, "traps", "zero", "mode", "half_even", "maxDigits", 30)))
			out = append(out, levelBDecimalInstances("reduce", "reduce_inplace")...)
			return append(out, compositeInstances(tier)...)
		},
		PathModels: true, PathModelSample: 40, Stubs: stubsLevelA, Bounds: boundsArith, Outside: outsideArith, Assumptions: assumeCommon}
	checkDefs["C03"] = &CheckDef{Prop: "C03", Enable: []string{"C03."},
		Instances: func(tier string) []Instance {
			// (a) trap non-interference and the error contract by self-composition, all leaf operations
			out := twoRunInstances(tier, "VerifTrapsIndep", "sym", twoModes(tier), nil)
			// (b) ErrDecimal wrappers (iterative functions: special operands only)
			out = append(out, twoRunInstances(tier, "VerifErrDecimal", "sym", []string{"half_even"}, []string{"sqrt", "exp", "ln", "log10"})...)
			out = append(out, inst("VerifErrDecimal", 2, p("Pmin", 1, "regime", 0, "traps", "sym", "full", 0, "mode", "half_even", "op", "pow", "K", 2, "W", 2)))
			// errors that carry no flags (zero precision in the division operations) must be kept too
			for _, op := range []string{"quo", "quoint", "exp"} {
				out = append(out, inst("VerifErrDecimal", 2, p("Pmin", 0, "regime", 0, "traps", "sym", "full", 0, "mode", "half_even", "op", op, "K", 1, "W", 1)))
			}
			// (c) iterative functions on concrete operands under every trap set
			out = append(out, compositeInstances(tier)...)
			// (d) the error contract on the oracle-checked harnesses at larger digit counts
			if tier == "thorough" {
				out = append(out, arithInstances("quick", "sym")...)
			} else {
				for _, m := range []string{"half_even", "up"} {
					out = append(out, inst("VerifRound", 6, p("Pmin", 1, "regime", 0, "traps", "sym", "mode", m, "K", 4, "W", 5)))
				}
			}
			return out
		},
		PathModels: true, PathModelSample: 40, Stubs: stubsLevelA, Bounds: boundsArith, Outside: outsideArith, Assumptions: assumeCommon}
	checkDefs["C09"] = &CheckDef{Prop: "C09", Enable: []string{"C09."},
		Instances:  func(tier string) []Instance { return quantizeInstances(tier, "zero") },
		PathModels: true, PathModelSample: 40, Stubs: stubsLevelA, Assumptions: assumeCommon,
		Bounds:        map[string]interface{}{"quick": "x: K=3 digits, W=3; target exponent in [-W-4, W+4]; 9 modes for Quantize, 4 modes for RoundToIntegral*/Ceil/Floor", "thorough": "K=6, W=6, 9 modes"},
		Outside:       []string{"more digits / wider exponent windows", "Ceil/Floor results that needed rounding to the precision (property restricts them to integer parts that fit)"},
		RequireCovers: []string{"quantize.drop", "quantize.exact", "quantize.nan", "rti_exact.drop"}}
	checkDefs["C10"] = &CheckDef{Prop: "C10", Enable: []string{"C10."},
		Instances:  func(tier string) []Instance { return divIntInstances(tier, "zero") },
		PathModels: true, PathModelSample: 40, Stubs: stubsLevelA, Assumptions: assumeCommon,
		Bounds:        map[string]interface{}{"quick": "dividend K=3 digits, divisor coefficient enumerated 1..9, W=2 (exponent gap up to 4), modes half_even/floor/up", "thorough": "K=3, divisor 1..99, W=2, modes half_even/floor/up/05up"},
		Outside:       []string{"divisor coefficients above Kd digits", "exponent gaps beyond 2W (the upscale error path for gaps > 100000 is not exercised)"},
		RequireCovers: []string{"quoint.finite", "quoint.impossible", "rem.rounded"}}
	boundsTwoRun := map[string]interface{}{
		"quick":    "operands of every form (finite, infinite, NaN, sNaN), K=2 digits (division operands 1 digit, enumerated), unary K=3, exponents in [-2,2], Precision 1..K, mode half_even",
		"thorough": "the quick digits under modes half_even/floor/up/05up"}
	checkDefs["C05"] = &CheckDef{Prop: "C05", Enable: []string{"C05."},
		Instances: func(tier string) []Instance {
			out := twoRunInstances(tier, "VerifAlias", "zero", twoModes(tier), nil)
			for _, op := range []string{"modf_integ", "modf_frac", "neg", "abs", "set", "reduce"} {
				out = append(out, inst("VerifAliasDecimal", 1, p("op", op, "K", 4, "W", 5, "regime", 0)))
			}
			// iterative functions: destination == operand on concrete operands, every trap set
			out = append(out, compositeInstances(tier)...)
			// BigInt methods at Level B (real representation): receiver aliasing an operand
			for _, op := range []string{"add", "mul", "quo", "rem", "quorem"} {
				for _, pat := range []string{"zx", "zy"} {
					i := inst("VerifBigBinary", 3, p("op", op, "pat", pat, "maxheap", 1, "feasTimeout", 300))
					i.LevelB = true
					out = append(out, i)
				}
			}
			return out
		},
		PathModels: true, PathModelSample: 15, Stubs: stubsLevelA, Assumptions: assumeCommon, Bounds: boundsTwoRun,
		Outside: []string{"BigInt-level aliasing (math/big sharing the inline array) is inside the Level-A stub here; the BigInt methods' own alias patterns are checked in C16",
			"composite functions (Sqrt..Pow)", "larger coefficients / exponent windows"}}
	checkDefs["C06"] = &CheckDef{Prop: "C06", Enable: []string{"C06.", "W.write"},
		Instances: func(tier string) []Instance {
			// (iterative functions: write monitor on concrete operands under every trap set)
			out := append(twoRunInstances(tier, "VerifDestIndep", "zero", twoModes(tier), nil), compositeInstances(tier)...)
			// parsing into two arbitrary destinations
			for _, n := range []int{3, 4, 5} {
				out = append(out, inst("VerifParseDest", 2*n, p("n", n, "Pmin", 1, "regime", 0, "traps", "zero", "mode", "half_even", "K", 3, "W", 3)))
			}
			// Level B: a copy keeps nothing of the destination's previous representation
			out = append(out, levelBDecimalInstances("set", "cmp")...)
			for _, pat := range []string{"none"} {
				i := inst("VerifBigUnary", 1, p("op", "set", "pat", pat, "maxheap", 2, "feasTimeout", 300))
				i.LevelB = true
				out = append(out, i)
			}
			return out
		},
		PathModels: true, PathModelSample: 15, Stubs: stubsLevelA, Assumptions: assumeCommon, Bounds: boundsTwoRun,
		Outside: []string{"history independence is obtained by induction: no operation writes package-level state (write monitor on every store of every explored path), hence the outcome is a function of operands and context alone; it is not explored as sequences",
			"composite functions (Sqrt..Pow)"}}
	checkDefs["C18"] = &CheckDef{Prop: "C18", Enable: []string{"W.write", "C18."},
		Instances: func(tier string) []Instance {
			out := twoRunInstances(tier, "VerifDestIndep", "zero", twoModes(tier), nil)
			out = append(out, inst("VerifCmp", 2, p("K", 4, "full", 1)), inst("VerifCmpTotal", 2, p("K", 4, "full", 1)))
			out = append(out, numDigitsInstances("quick")[:6]...)
			out = append(out, compositeInstances(tier)...)
			// Level B: the BigInt methods that Context operations apply to shared operands do not
			// write the operands' representation (the inline array is aliased through unsafe)
			for _, op := range []string{"add", "sub", "mul", "quo", "rem"} {
				i := inst("VerifBigBinary", 4, p("op", op, "pat", "none", "maxheap", 1, "feasTimeout", 300))
				i.LevelB = true
				out = append(out, i)
			}
			for _, w := range []string{"cmp", "unary"} {
				i := inst("VerifBigScalar", 3, p("what", w, "maxheap", 2, "feasTimeout", 300))
				i.LevelB = true
				out = append(out, i)
			}
			out = append(out, levelBDecimalInstances("cmp", "reduce")...)
			return out
		},
		PathModels: true, PathModelSample: 6, Stubs: stubsLevelA, Assumptions: append([]string{
			"reduction: two concurrent calls can race or influence each other only through memory both can reach (shared Context, shared operands, package-level state); a data race needs a write to such memory. The check decides that no feasible path of any encoded method stores into a context, operand or package-level object; under the Go memory model every interleaving is then race-free and each call reads what it reads alone",
			"math/big does not write its operands and fmt/strconv are goroutine-safe (stub boundary)"}, assumeCommon...), Bounds: boundsTwoRun,
		Outside: []string{"composite functions (Sqrt..Pow) and their ErrDecimal/WithPrecision plumbing", "Level-B BigInt internals: operands of Add/Sub/Mul/Quo/Rem/Cmp/CmpAbs/Sign/IsInt64/... are bit-for-bit unchanged from arbitrary valid representations (same harnesses as C16)"}}
	checkDefs["C08"] = &CheckDef{Prop: "C08", Enable: []string{"C08."},
		Instances: func(tier string) []Instance {
			var out []Instance
			modes := []string{"half_even", "floor"}
			K, W := 2, 2
			if tier == "thorough" {
				modes = allModes
				K, W = 4, 6
			}
			for _, m := range modes {
				// Precision 0 included: the special-value rules come before the zero-precision error
				base := p("Pmin", 0, "regime", 0, "traps", "sym", "full", 0, "mode", m, "K", K, "W", W)
				for _, op := range []string{"add", "sub", "mul", "quo", "quoint", "rem", "cmp", "pow"} {
					out = append(out, inst("VerifSpecialBinary", 2, base, "op", op))
				}
				for _, op := range []string{"abs", "neg", "round", "reduce", "quantize", "rti_value", "rti_exact", "ceil", "floor", "sqrt", "cbrt", "ln", "log10", "exp"} {
					out = append(out, inst("VerifSpecialUnary", 1, base, "op", op))
				}
			}
			return out
		},
		PathModels: true, PathModelSample: 20, Stubs: stubsLevelA, Assumptions: append([]string{"the GDA special-value table transcribed in /verif/harness/h_special.go"}, assumeCommon...),
		Bounds: map[string]interface{}{"quick": "every combination of {NaN, sNaN, +-Inf, +-0, finite} operands with 2-digit coefficients, exponents in [-2,2], symbolic contexts (Precision 0 included) and trap sets; modes half_even, floor", "thorough": "4 digits, W=6, all modes"},
		Outside: []string{"cells the statement does not spell out (Pow with an infinite operand, Cbrt(-Inf), sign of a DivisionImpossible NaN) get only the generic consequences",
			"Sqrt/Cbrt/Ln/Log10/Exp/Pow: only the special-value prologues; operands that enter the numeric core are excluded",
			"signs of exact-zero sums and products are asserted in C01 (finite operands)"},
		RequireCovers: []string{"add.nan", "add.inf", "quo.inf", "quo.nan", "round.nan", "ceil.nan", "sqrt.nan"}}
	checkDefs["C17"] = &CheckDef{Prop: "C17", Enable: []string{"C17."},
		Instances: func(tier string) []Instance {
			K := 22
			if tier == "thorough" {
				K = 30
			}
			out := []Instance{inst("VerifInt64", 5, p("K", K, "W", K)), inst("VerifConstruct", 1, p("K", 4))}
			// zeros with exponents beyond the window, beyond the power-of-ten table and at the package limit
			for _, ze := range []int{25, 129, 100000} {
				out = append(out, inst("VerifInt64", 1, p("K", 1, "W", 1, "zeroexp", ze, "maxInstr", 5000000)))
			}
			for _, o := range []string{"both", "integ", "frac"} {
				out = append(out, inst("VerifModf", 2, p("outs", o, "K", 6, "W", 8, "regime", 0)))
			}
			out = append(out, levelBDecimalInstances("newwithbigint")...)
			// Float64 is the nearest float64: 22 digits reach past 2^53, 10^16, 2^64 and 20 digits (a
			// pre-rounded coefficient), the exponents past 10^22 (the last power of ten that is a float64)
			fk, fw := 22, 24
			if tier == "thorough" {
				fk, fw = 30, 40
			}
			out = append(out, inst("VerifFloat64", 6, p("K", fk, "elo", -fw, "ehi", fw, "strictFloat", 1, "maxDigits", fk+8)))
			return out
		},
		PathModels: true, PathModelSample: 60, Assumptions: assumeCommon,
		Stubs:         append([]string{"strconv.ParseFloat(s, 64) on a symbolic digit string: its documented contract - the float64 nearest (IEEE-754 ties to even) to the decimal value of s - stated over exact integers (fresh significand per binade); float64 conversion from and to integers, negation, comparison, Trunc/Floor/Ceil, multiplication and division by a CONSTANT float64 are exact integer arithmetic on significand and binary exponent (engine/sym/float.go); no floating-point theory is used"}, stubsLevelA...),
		Bounds:        map[string]interface{}{"quick": "Int64: coefficients up to 22 digits, exponents -22..22 (each value), zero coefficient with exponent <= 24 and exactly 25, 129, 100000; Modf: 6 digits, exponents -8..8; constructors: all int64 values, all exponents; Float64: every coefficient up to 22 digits, both signs, every exponent in -24..24", "thorough": "Int64 30 digits; Float64 30 digits, exponents -40..40"},
		Outside:       []string{"Float64 on longer coefficients or exponents outside the window (in particular results that are subnormal, zero by underflow, or infinite)", "float arithmetic other than the listed operations (two symbolic factors, addition, float32): such a path ends as cut_float and is reported as an excluded region", "SetFloat64 followed by Float64 is decided in C13", "other zero coefficients with exponent > 24 (the x10 loop runs Exponent times)"},
		RequireCovers: []string{"int64.ok", "int64.error", "float64.ok"}}
	checkDefs["C19"] = &CheckDef{Prop: "C19", Enable: []string{"C19.", "P.panic"},
		Instances: func(tier string) []Instance {
			out := numDigitsInstances(tier)
			out = append(out, inst("VerifTableExp10", 1, p("kmax", 200)))
			K, W := 5, 5
			modes := []string{"half_even", "floor", "up"}
			if tier == "thorough" {
				K, W = 9, 9
				modes = allModes
			}
			out = append(out, inst("VerifReduce", 1, p("op", "dec", "K", 19, "W", W, "regime", 0)))
			out = append(out, inst("VerifReduce", 1, p("op", "dec", "K", 24, "W", W, "regime", 0)))
			for _, m := range modes {
				out = append(out, inst("VerifReduce", 4, p("op", "ctx", "K", K, "W", W, "Pmin", 1, "regime", 0, "traps", "zero", "mode", m)))
			}
			// the reduced value and the count are delivered also alongside a trapped condition
			out = append(out, inst("VerifReduce", 4, p("op", "ctx", "K", 3, "W", 3, "Pmin", 1, "regime", 0, "traps", "sym", "mode", "half_even")))
			return out
		},
		PathModels: true, PathModelSample: 40, Assumptions: assumeCommon,
		Stubs:         append([]string{"NumDigits harness: the REAL table.go code is executed (digit-count stub disabled); digitsLookupTable and pow10LookupTable contents come from the concretely interpreted package init; BigInt.BitLen forks on the bit length; float64(bl)/digitsToBitsRatio is constant-folded per bit length with Go float64 arithmetic"}, stubsLevelA...),
		Bounds:        map[string]interface{}{"quick": "NumDigits: every integer b with |b| < 2^150, both signs (bit lengths 0..150, table and fallback code); tableExp10(k) for k <= 200; Decimal.Reduce: up to 24 digits (uint64 loop and big loop); Context.Reduce: 5 digits, W=5, modes half_even/floor/up", "thorough": "NumDigits up to 1100 bits; Context.Reduce 9 digits, all modes"},
		Outside:       []string{"integers beyond the stated bit length"},
		RequireCovers: []string{"numdigits.negative", "numdigits.beyondtable", "tableexp10.fallback", "reduce.stripped", "reduce.zero"}}
	checkDefs["C20"] = &CheckDef{Prop: "C20", Enable: []string{"C20."},
		Instances: func(tier string) []Instance {
			var out []Instance
			thor := tier == "thorough"
			base := p("Pmin", 1, "regime", 0, "traps", "zero", "mode", "half_even")
			kw := func(k, w int) (int, int) {
				return k, w
			}
			for _, o := range []struct {
				op   string
				k, w int
			}{{"round", 4, 5}, {"add", 2, 2}, {"sub", 2, 2}, {"mul", 3, 3}, {"quo", 2, 2}, {"quantize", 3, 3}, {"rti_exact", 4, 4}} {
				k, w := kw(o.k, o.w)
				out = append(out, inst("VerifModes", 6, base, "op", o.op, "K", k, "Kd", 1, "W", w))
			}
			type relT struct {
				rel, op string
				modes   []string
			}
			he, fl := []string{"half_even"}, []string{"floor"}
			both := []string{"half_even", "floor"}
			rels := []relT{{"commute", "add", he}, {"commute", "mul", he}, {"sub_is_add_neg", "sub", fl}, {"mirror", "add", fl}, {"mirror", "sub", fl},
				{"mirror", "mul", he}, {"mirror", "quo", he}, {"mirror", "round", both}, {"scale", "add", he}, {"scale", "sub", fl}, {"scale", "mul", he},
				{"scale", "quo", he}, {"scale", "rem", he}, {"monotone", "round", both}}
			for _, r := range rels {
				modes := r.modes
				if thor {
					modes = allModes
				}
				for _, m := range modes {
					b := p("Pmin", 1, "regime", 0, "traps", "zero", "mode", m, "Kd", 1)
					k, w := kw(2, 2)
					if r.op == "round" || r.op == "mul" {
						k++
					}
					out = append(out, inst("VerifRelations", 3, b, "rel", r.rel, "op", r.op, "K", k, "W", w))
				}
			}
			return out
		},
		PathModels: true, PathModelSample: 10, Stubs: stubsLevelA, Assumptions: assumeCommon,
		Bounds:        map[string]interface{}{"quick": "eight modes run on the same symbolic operands in one path space: Round K=4/W=5, Add/Sub K=2/W=2, Mul K=3/W=3, Quo K=2 (divisor 1..9), Quantize K=3, RoundToIntegralExact K=4; two-input relations at K=2..3 under half_even and floor", "thorough": "the same digits; relations under all modes"},
		Outside:       []string{"larger coefficients", "results that are NaN (Quantize invalid) or hit a system limit are skipped", "an exact zero sum may differ in sign between round-floor and the other modes (GDA rule, asserted in C01/C08)"},
		RequireCovers: []string{"modes.exact", "modes.inexact"}}
	parseInstances := func(tier string, maxAscii, maxShaped int) []Instance {
		var out []Instance
		for n := 0; n <= maxAscii; n++ {
			out = append(out, inst("VerifParse", n, p("n", n, "alphabet", "bytes", "via", "setstring", "K", 3)))
		}
		for _, via := range []string{"unmarshal", "scanstring", "scanbytes", "new"} {
			for _, n := range []int{3, 5} {
				out = append(out, inst("VerifParse", n, p("n", n, "alphabet", "bytes", "via", via, "K", 3)))
			}
		}
		// the contract by which asciiLower is summarised in the parser harnesses, on the real loop
		for n := 1; n <= 4; n++ {
			out = append(out, inst("VerifAsciiLower", 1, p("n", n, "realAsciiLower", 1)))
		}
		for n := maxAscii + 1; n <= maxShaped; n++ {
			out = append(out, inst("VerifParse", 3*n, p("n", n, "alphabet", "shaped", "via", "setstring", "K", 3)))
		}
		return out
	}
	formatInstances := func(tier string) []Instance {
		K := 4
		if tier == "thorough" {
			K = 6
		}
		var out []Instance
		for _, f := range []string{"G", "g", "E", "e", "f"} {
			out = append(out, inst("VerifFormat", 5, p("fmt", f, "via", "text", "K", K, "elo", -12, "ehi", 8)))
		}
		for _, via := range []string{"string", "marshal", "value", "append"} {
			out = append(out, inst("VerifFormat", 3, p("fmt", "G", "via", via, "K", 3, "elo", -9, "ehi", 4)))
		}
		out = append(out, inst("VerifFormat", 3, p("fmt", "G", "via", "string", "K", 3, "elo", -100000, "ehi", -99990)))
		out = append(out, inst("VerifFormat", 3, p("fmt", "G", "via", "string", "K", 3, "elo", 99990, "ehi", 100000)))
		out = append(out, inst("VerifFormat", 3, p("fmt", "e", "via", "text", "K", 3, "elo", -100000, "ehi", 100000)))
		out = append(out, inst("VerifFormat", 4, p("fmt", "G", "via", "string", "K", 1, "elo", -2002, "ehi", -1998)))
		out = append(out, inst("VerifFormat", 4, p("fmt", "f", "via", "text", "K", 2, "elo", -40, "ehi", 40)))
		return out
	}
	checkDefs["C14"] = &CheckDef{Prop: "C14", Enable: []string{"C14."},
		Instances: func(tier string) []Instance {
			a, sh := 7, 8
			if tier == "thorough" {
				a, sh = 7, 10
			}
			out := append(parseInstances(tier, a, sh), formatInstances(tier)...)
			for _, v := range []string{"v", "s", "G", "g", "E", "e", "f", "F"} {
				out = append(out, inst("VerifFormatFlags", 6, p("verb", v, "K", 2, "elo", -8, "ehi", 3, "maxwidth", 9)))
			}
			return out
		},
		PathModels: true, PathModelSample: 40, Stubs: stubsLevelA, Assumptions: append([]string{"the numeric-string grammar transcribed in /verif/harness/h_parse.go and the to-scientific-string rules in h_format.go"}, assumeCommon...),
		Bounds: map[string]interface{}{"quick": "parser: EVERY byte string over 0..255 of length 0..7 through SetString (lengths 3 and 5 through UnmarshalText, Scan(string), Scan([]byte), NewFromString), and every string of length 8 over the bytes that occur in numeric strings; formatting: all forms and signs, coefficients up to 4 digits, exponents -12..8 plus the windows at +-100000 and the -2000 zero boundary; Format flags: +, space, -, 0, width 0..9, eight verbs",
			"thorough": "numeric-alphabet strings up to length 10; 8-digit coefficients"},
		Outside:       []string{"NaN payloads above 2^64-1 need 23+ bytes", "longer strings / coefficients"},
		RequireCovers: []string{"parse.accepted", "parse.rejected", "format.zero"}}
	checkDefs["C13"] = &CheckDef{Prop: "C13", Enable: []string{"C13."},
		Instances: func(tier string) []Instance {
			out := formatInstances(tier)
			for _, b := range []int{0, 2, 16} {
				out = append(out, inst("VerifCompose", 1, p("K", 6, "elo", -100000, "ehi", 100000, "bufcap", b, "maxDigits", 30)))
			}
			// SetFloat64 then Float64: zeros, infinities, NaN, and every normal float64 (sign, all 2^52
			// significands) for each binary exponent of the window, in chunks
			for _, sp := range []string{"zero", "negzero", "inf", "neginf", "nan"} {
				out = append(out, inst("VerifFloatRound", 1, p("spec", sp, "K", 2, "strictFloat", 1)))
			}
			klo, khi, step := -100, 59, 40
			if tier == "thorough" {
				klo, khi, step = -330, 279, 61
			}
			for k := klo; k <= khi; k += step {
				out = append(out, inst("VerifFloatRound", 4, p("spec", "normal", "klo", k, "khi", k+step-1, "K", 2, "strictFloat", 1)))
			}
			return out
		},
		PathModels: true, PathModelSample: 40, Assumptions: assumeCommon,
		Stubs: append([]string{"strconv.AppendFloat(f, 'e'|'E', prec, 64) on a symbolic float64: its documented contract - prec -1: SOME decimal of 1..17 significant digits whose nearest float64 is f (every digit count that admits one is explored: a superset of the real outputs; minimality is not modelled); prec >= 0: the (prec+1)-digit decimal nearest to f, ties to even", "strconv.ParseFloat(s, 64) on a symbolic digit string: the float64 nearest (ties to even) to the decimal value of s", "both contracts and all float64 arithmetic are stated over exact integers (significand, binary exponent), engine/sym/float.go; digits printed from one integer and read back unchanged denote that integer (digit provenance)"}, stubsLevelA...),
		Bounds: map[string]interface{}{"quick": "all forms and signs; coefficients up to 4 digits (Compose/Decompose: 6), exponents -12..8 plus the windows at +-100000 and the -2000 zero boundary, 'f' up to |exponent| 40", "thorough": "8 digits",
			"float64": "SetFloat64 then Float64 on +-0, +-Inf, NaN and on EVERY normal float64 with binary exponent (of the 53-bit integer significand) in [-100, 59] (about 3.6e-15 .. 1.0e34); thorough [-330, 279] (about 2e-84 .. 1.7e100)"},
		Outside:       []string{"float64 values outside the stated binary-exponent window, subnormal float64s", "that SetFloat64 stores the SHORTEST coefficient (a property of strconv.AppendFloat's contract, which the stub does not model: only that the stored decimal rounds to the argument)", "NaN payloads (String does not print them; Decompose does not carry them)", "longer coefficients"},
		RequireCovers: []string{"format.zero", "compose.finite", "float.roundtrip"}}
	checkDefs["C04"] = &CheckDef{Prop: "C04", Enable: []string{"C04.", "P.panic"},
		Instances: func(tier string) []Instance {
			out := parseInstances(tier, 6, 7)
			for _, m := range []string{"half_even"} {
				base := p("Pmin", 0, "regime", 0, "traps", "sym", "full", 0, "mode", m, "K", 2, "W", 2)
				for _, op := range []string{"add", "sub", "mul", "quo", "quoint", "rem", "cmp", "pow"} {
					out = append(out, inst("VerifSpecialBinary", 2, base, "op", op))
				}
				for _, op := range []string{"abs", "neg", "round", "reduce", "quantize", "rti_value", "rti_exact", "ceil", "floor", "sqrt", "cbrt", "ln", "log10", "exp"} {
					out = append(out, inst("VerifSpecialUnary", 1, base, "op", op))
				}
				// finite operands with zero precision allowed, and at the package exponent limits
				for _, reg := range []int{0, 1, 2} {
					b2 := p("Pmin", 0, "regime", reg, "traps", "zero", "mode", m)
					out = append(out, inst("VerifRound", 3, b2, "K", 3, "W", 3))
					out = append(out, inst("VerifAdd", 5, b2, "K", 2, "W", 2, "sub", 1))
					out = append(out, inst("VerifMul", 3, b2, "K", 2, "W", 2))
					out = append(out, inst("VerifDivInt", 5, b2, "K", 2, "Kd", 1, "W", 2))
					// (at the exponent limits Quo and Quantize legitimately build powers of ten with
					// ~100000 digits: minutes per path, outside the quick bound)
					if reg != 1 {
						out = append(out, inst("VerifQuo", 5, b2, "K", 2, "Kd", 1, "W", 2))
					}
					if reg == 0 {
						out = append(out, inst("VerifQuantize", 3, b2, "K", 2, "W", 2, "op", "quantize"))
					}
				}
			}
			out = append(out, numDigitsInstances(tier)...)
			for _, w := range []string{"verbs", "accessors"} {
				out = append(out, inst("VerifMisc", 2, p("what", w, "K", 3, "elo", -30, "ehi", 30)))
			}
			out = append(out, inst("VerifMisc", 2, p("what", "accessors", "K", 2, "elo", 99995, "ehi", 100000)))
			out = append(out, inst("VerifMisc", 2, p("what", "accessors", "K", 2, "elo", -100000, "ehi", -99995)))
			out = append(out, inst("VerifMisc", 4, p("what", "condstring", "realCondString", 1, "K", 1, "elo", 0, "ehi", 0)))
			out = append(out, inst("VerifMisc", 1, p("what", "compose", "n", 3, "K", 1, "elo", 0, "ehi", 0)))
			for _, f := range []string{"G", "e", "f"} {
				out = append(out, inst("VerifFormat", 3, p("fmt", f, "via", "text", "K", 3, "elo", -9, "ehi", 4)))
			}
			out = append(out, inst("VerifInt64", 3, p("K", 20, "W", 20)))
			for _, ze := range []int{129, 100000} {
				out = append(out, inst("VerifInt64", 1, p("K", 1, "W", 1, "zeroexp", ze, "maxInstr", 5000000)))
			}
			out = append(out, levelBDecimalInstances("reduce", "reduce_inplace", "cmp")...)
			out = append(out, compositeInstances(tier)...)
			return out
		},
		PathModels: true, PathModelSample: 5, Stubs: stubsLevelA, Assumptions: assumeCommon,
		Bounds: map[string]interface{}{"quick": "panic obligations (nil dereference, index/slice bounds, division by zero, explicit panic, failed type assertion, math/big documented panics) on every SSA instruction of every explored path of: the parser on all ASCII strings up to 6 bytes (and numeric-alphabet strings of 7), every operation on every combination of special operands with zero precision allowed, finite operands in three exponent regimes (centre, both package limits), real NumDigits up to 150 bits both signs, Condition.String for all 2^12 condition sets, Format with every verb byte, accessors on all forms, iterative functions on concrete operands under every trap set with an execution bound of 6e7 SSA instructions (hang check)",
			"thorough": "NumDigits to 1100 bits, more concrete operands for the iterative functions"},
		Outside: []string{"the iterative functions on symbolic operands (their loops are executed for the listed concrete operands only)", "JSON/Gob/Scan(fmt.ScanState) wrappers of BigInt (pass-through to math/big)",
			"BigInt methods' own panics are math/big's documented ones (C16)", "zero coefficients with exponents above 24 in Int64 (100000 loop iterations)"},
		RequireCovers: []string{"parse.accepted", "numdigits.negative", "composite.ok", "composite.error"}}
	checkDefs["C16"] = &CheckDef{Prop: "C16", Enable: []string{"C16."},
		Instances: func(tier string) []Instance {
			var out []Instance
			mh := 1
			lb := func(h string, w int, kv ...interface{}) Instance {
				i := inst(h, w, p(kv...))
				i.LevelB = true
				i.Params["feasTimeout"] = "300" // 128-bit bvmul feasibility queries: unknown keeps the branch
				return i
			}
			for _, op := range []string{"add", "sub", "mul", "quo", "rem"} {
				for _, pat := range []string{"none", "zx", "zy", "xy", "zxy"} {
					out = append(out, lb("VerifBigBinary", 5, "op", op, "pat", pat, "maxheap", mh))
				}
			}
			out = append(out, lb("VerifBigBinary", 8, "op", "quorem", "pat", "none", "maxheap", mh-1))
			out = append(out, lb("VerifBigBinary", 8, "op", "quorem", "pat", "zx", "maxheap", mh-1))
			out = append(out, lb("VerifBigBinary", 8, "op", "quorem", "pat", "zy", "maxheap", mh-1))
			out = append(out, levelBDecimalInstances("cmp", "reduce", "reduce_inplace")...)
			for _, op := range []string{"and", "or", "xor", "andnot", "div", "mod"} {
				for _, pat := range []string{"none", "zx", "zy", "zxy"} {
					out = append(out, lb("VerifBigBinary", 2, "op", op, "pat", pat, "maxheap", mh))
				}
			}
			for _, op := range []string{"not", "sqrt"} {
				for _, pat := range []string{"none", "zx"} {
					out = append(out, lb("VerifBigUnary", 1, "op", op, "pat", pat, "maxheap", mh))
				}
			}
			for _, op := range []string{"set", "abs", "neg"} {
				for _, pat := range []string{"none", "zx"} {
					out = append(out, lb("VerifBigUnary", 1, "op", op, "pat", pat, "maxheap", mh+1))
				}
			}
			smh := mh + 1
			if tier == "thorough" {
				smh = mh + 2
			}
			for _, w := range []string{"cmp", "unary", "bitlen", "setters"} {
				out = append(out, lb("VerifBigScalar", 3, "what", w, "maxheap", smh))
			}
			return out
		},
		PathModels: true, PathModelSample: 30, Assumptions: append([]string{
			"math/big is trusted: its methods are modelled at the API boundary on reference values (sign + normalised 64-bit words); results are written into the receiver's backing array when they fit its capacity, else into a fresh array, and words beyond the new length are left dirty",
			"multi-word products/quotients and the bitwise/shift/exp/gcd methods are uninterpreted functions of the operand values (what is decided is that the wrapper passes the right values and stores the result correctly)",
			"amd64 layout: 64-bit words, two inline words; intStruct and big.Int have the same layout"}, assumeCommon...),
		Stubs: []string{"math/big API (Level B): SetBits, Bits, Sign, Cmp, CmpAbs, Set, Abs, Neg, Add, Sub, Mul, Quo, Rem, QuoRem, IsInt64, IsUint64, Int64, Uint64, Bit(0), BitLen exact; Div, Mod, And, Or, Xor, AndNot, Not, Lsh, Rsh, Exp, Sqrt as uninterpreted functions", "math/bits Add64/Sub64/Mul64/Len: documented bit-vector meaning", "noescape: identity"},
		Bounds: map[string]interface{}{"quick": "ONE inductive step of each method from ARBITRARY valid representations: every operand is inline non-negative, inline negative (non-zero) or heap-backed with up to 1 word (unary/scalar: 2 words), all 64-bit words symbolic, inline words arbitrary even when heap-backed; alias patterns none, z==x, z==y, x==y, z==x==y; methods Add, Sub, Mul, Quo, Rem, QuoRem, And, Or, Xor, AndNot, Div, Mod, Not, Sqrt (the last eight with math/big's result as an uninterpreted function), Set, Abs, Neg, Sign, Cmp, CmpAbs, IsInt64, IsUint64, Int64, Uint64, Bit(0), BitLen, SetInt64, SetUint64",
			"thorough": "scalar methods (Cmp, CmpAbs, Sign, IsInt64, ..., BitLen, setters) with heap operands up to 3 words; the arithmetic methods as in the quick tier"},
		Outside:       []string{"heap values above the stated word count in the pre-state", "text/JSON/Gob/Scan/Format wrappers, Append/SetString fast paths, and the remaining pass-through wrappers (Lsh, Rsh, Exp, GCD, ModInverse, ModSqrt, SetBit, Binomial, MulRange, Rand, DivMod)", "32-bit platforms"},
		RequireCovers: []string{"big.zero_result", "big.heap_result"}}
	checkDefs["C15"] = &CheckDef{Prop: "C15", Enable: []string{"C15."},
		Instances: func(tier string) []Instance {
			// at least 20 digits: the coefficients cross the uint64 boundary
			K := 21
			if tier == "thorough" {
				K = 40
			}
			out := []Instance{inst("VerifCmp", 2, p("K", K, "full", 1, "maxDigits", K+6)), inst("VerifCmpTotal", 3, p("K", K, "full", 1, "maxDigits", K+6))}
			// coefficients in arbitrary representations (heap-backed small values, stale inline words)
			return append(out, levelBDecimalInstances("cmp")...)
		},
		PathModels: true, PathModelSample: 150, Stubs: stubsLevelA, Assumptions: assumeCommon,
		Bounds:        map[string]interface{}{"quick": "coefficients up to 21 digits (across the uint64 boundary), exponents over the full package range [-100000, 100000], all four forms and signs", "thorough": "40 digits"},
		Outside:       []string{"coefficients with more digits", "transitivity of CmpTotal is not queried on triples: it follows from CmpTotal being equal to a comparison of keys in a totally ordered key space (asserted pairwise)"},
		RequireCovers: []string{"cmp.finite", "cmp.infinf"}}
}

func twoModes(tier string) []string {
	if tier == "thorough" {
		return []string{"half_even", "floor", "up", "05up"}
	}
	return []string{"half_even"}
}

var binOps = []string{"add", "sub", "mul", "quo", "quoint", "rem", "cmp"}
var unOps = []string{"abs", "neg", "round", "reduce", "quantize", "rti_value", "rti_exact", "ceil", "floor"}

// twoRunInstances builds the self-composition instances (alias / dest / traps / errdecimal).
func twoRunInstances(tier, harness string, traps string, modes []string, extraUnary []string) []Instance {
	var out []Instance
	K, W, Kdiv := 2, 2, 1
	if tier == "thorough" {
		K, W, Kdiv = 2, 2, 1 // the thorough tier adds modes (twoModes), not digits
	}
	for _, m := range modes {
		base := p("Pmin", 1, "regime", 0, "traps", traps, "full", 0, "mode", m)
		for _, op := range binOps {
			if op == "cmp" && harness == "VerifErrDecimal" {
				continue // ErrDecimal has no Cmp wrapper
			}
			k := K
			if op == "quo" || op == "quoint" || op == "rem" {
				k = Kdiv
			}
			if harness == "VerifAlias" {
				for _, pat := range []string{"dx", "dy", "xy", "dxy"} {
					out = append(out, inst(harness, 5, base, "op", op, "pat", pat, "K", k, "W", W))
				}
			} else {
				out = append(out, inst(harness, 5, base, "op", op, "K", k, "W", W))
			}
		}
		for _, op := range append(append([]string{}, unOps...), extraUnary...) {
			if harness == "VerifAlias" {
				out = append(out, inst(harness, 2, base, "op", op, "pat", "dx", "K", K+1, "W", W))
			} else {
				out = append(out, inst(harness, 2, base, "op", op, "K", K+1, "W", W))
			}
		}
	}
	return out
}

func pow2(n int) string {
	v := new(big.Int).Lsh(big.NewInt(1), uint(n))
	return v.String()
}

func numDigitsInstances(tier string) []Instance {
	// bit-length slices [lo, hi) for both signs; the table ends at 128 bits
	edges := []int{0, 40, 80, 110, 127, 129, 132, 150}
	if tier == "thorough" {
		edges = []int{0, 40, 80, 110, 127, 129, 132, 150, 200, 300, 500, 800, 1100}
	}
	var out []Instance
	for i := 0; i+1 < len(edges); i++ {
		lo, hi := pow2(edges[i]), pow2(edges[i+1])
		if edges[i] == 0 {
			lo = "0"
		}
		md := edges[i+1]/3 + 5
		out = append(out, inst("VerifNumDigitsReal", 3, p("realNumDigits", 1, "lo", lo, "hi", hi, "maxDigits", md)))
		out = append(out, inst("VerifNumDigitsReal", 3, p("realNumDigits", 1, "lo", "-"+hi, "hi", "-"+lo, "maxDigits", md)))
	}
	return out
}

// p0Instances: Precision 0 (rounding disabled, as in BaseContext): Add, Sub, Mul, Abs, Neg, Round
// and Reduce return the exact result (C01/C02 only; C07's digit/exponent bounds need Precision >= 1).
func p0Instances(tier string) []Instance {
	base := p("Pmin", 0, "regime", 0, "traps", "zero")
	K, W := 2, 2
	modes := []string{"half_even", "floor"}
	if tier == "thorough" {
		modes = allModes
	}
	var out []Instance
	for _, m := range modes {
		out = append(out, inst("VerifRound", 2, base, "mode", m, "K", K+2, "W", W+2))
		out = append(out, inst("VerifAdd", 5, base, "mode", m, "K", K, "W", W, "sub", 0))
		out = append(out, inst("VerifAdd", 5, base, "mode", m, "K", K, "W", W, "sub", 1))
		out = append(out, inst("VerifMul", 2, base, "mode", m, "K", K+1, "W", W))
		out = append(out, inst("VerifAbsNeg", 1, base, "mode", m, "K", K+2, "W", W+2, "op", "abs"))
		out = append(out, inst("VerifAbsNeg", 1, base, "mode", m, "K", K+2, "W", W+2, "op", "neg"))
		out = append(out, inst("VerifReduce", 1, base, "mode", m, "K", K+2, "W", W+2, "op", "ctx"))
	}
	return out
}

// ctxParseInstances: context-aware parsing of strings assembled from symbolic parts.
func ctxParseInstances(tier string, traps string) []Instance {
	base := p("Pmin", 1, "regime", 0, "traps", traps)
	modes := []string{"half_even", "floor"}
	shapes := [][3]int{{2, 1, 1}, {1, 2, 1}, {3, 0, 1}, {0, 3, 1}, {3, 0, 0}, {1, 1, 0}}
	if tier == "thorough" {
		modes = allModes
	}
	var out []Instance
	for _, m := range modes {
		for i, sh := range shapes {
			via := "set"
			if i%2 == 1 {
				via = "new"
			}
			out = append(out, inst("VerifCtxParse", 3, base, "mode", m, "ni", sh[0], "nf", sh[1], "withexp", sh[2], "trailingpoint", i%2, "via", via, "K", 3, "W", 4))
		}
	}
	return out
}

// compositeInstances: iterative functions on concrete operands under every trap set.
func compositeInstances(tier string) []Instance {
	type cs struct{ op, x, y string }
	cases := []cs{{"cbrt", "8", ""}, {"cbrt", "8E+12", ""}, {"cbrt", "8E-12", ""}, {"cbrt", "-0.125", ""}, {"sqrt", "4E+14", ""}, {"sqrt", "9E-14", ""},
		{"ln", "1E-9", ""}, {"exp", "1E-9", ""}, {"exp", "0.5", ""}, {"exp", "-3.2", ""}, {"exp", "40", ""}, {"ln", "1.05", ""}, {"ln", "0.99999", ""}, {"ln", "7", ""}, {"ln", "1E+50000", ""},
		{"log10", "3", ""}, {"log10", "1E+50000", ""}, {"log10", "0.001", ""}, {"sqrt", "2", ""}, {"sqrt", "0.0000002", ""}, {"sqrt", "16", ""},
		{"cbrt", "5", ""}, {"cbrt", "-27", ""}, {"pow", "2", "3"}, {"pow", "1.1", "-2"}, {"pow", "2", "0.5"}, {"pow", "-3", "3"}}
	ctxs := [][3]int{{4, -6, 6}, {4, -2, 2}}
	if tier == "thorough" {
		cases = append(cases, cs{"exp", "0.000001", ""}, cs{"exp", "-300", ""}, cs{"ln", "123456789", ""}, cs{"ln", "1.0000001", ""}, cs{"sqrt", "99999999", ""},
			cs{"cbrt", "0.008", ""}, cs{"pow", "10", "-5"}, cs{"pow", "0.5", "7.5"}, cs{"log10", "1000", ""})
		ctxs = append(ctxs, [3]int{9, -20, 20}, [3]int{1, -1, 1})
	}
	var out []Instance
	for _, c := range cases {
		for _, cx := range ctxs {
			modes := []string{"half_even"}
			if tier == "thorough" || c.op == "exp" || c.op == "sqrt" {
				modes = []string{"half_even", "up"}
			}
			for _, m := range modes {
				out = append(out, inst("VerifComposite", 2, p("op", c.op, "x", c.x, "y", c.y, "P", cx[0], "Emin", cx[1], "Emax", cx[2], "mode", m, "traps", "sym", "K", 3,
					"hangcheck", 1, "maxInstr", 60000000)))
			}
		}
	}
	return out
}

// farGapInstances: Add/Sub with an exponent gap beyond the 128-entry power-of-ten table
// (gap 125..137), where the smaller operand lies wholly below the larger one's digits.
func farGapInstances(tier string, traps string) []Instance {
	var out []Instance
	modes := []string{"half_even", "up"}
	if tier == "thorough" {
		modes = allModes
	}
	for _, m := range modes {
		base := p("Pmin", 1, "regime", 0, "traps", traps, "mode", m, "K", 2, "W", 3, "ybase", -131, "maxDigits", 150)
		out = append(out, inst("VerifAdd", 6, base, "sub", 0))
		out = append(out, inst("VerifAdd", 6, base, "sub", 1))
	}
	return out
}

// levelBDecimalInstances: Decimal-level code on coefficients in arbitrary representations.
func levelBDecimalInstances(whats ...string) []Instance {
	var out []Instance
	for _, w := range whats {
		i := inst("VerifDecimalB", 4, p("what", w, "maxheap", 1, "feasTimeout", 300, "hangcheck", 1, "maxInstr", 3000000))
		i.LevelB = true
		out = append(out, i)
	}
	return out
}

// limitInstances: operands at the package exponent limits (regime 1: near -100000 with
// MinExponent = -100000; regime 2: near +100000 with MaxExponent = 100000): system
// conditions are raised only when the exact value really leaves the limits.
func limitInstances(tier string) []Instance {
	var out []Instance
	K := 3
	for _, reg := range []int{1, 2} {
		for _, m := range []string{"half_even", "floor"} {
			base := p("Pmin", 1, "regime", reg, "traps", "zero", "mode", m)
			out = append(out, inst("VerifRound", 1, base, "K", K, "W", 3))
			out = append(out, inst("VerifMul", 2, base, "K", K, "W", 3))
			out = append(out, inst("VerifAdd", 6, base, "K", 2, "W", 2, "sub", 1))
		}
	}
	return out
}

func divIntInstances(tier string, traps string) []Instance {
	base := p("Pmin", 1, "regime", 0, "traps", traps)
	var out []Instance
	if tier != "thorough" {
		for _, m := range []string{"half_even", "floor", "up"} {
			out = append(out, inst("VerifDivInt", 10, base, "mode", m, "K", 3, "Kd", 1, "W", 2))
		}
		return out
	}
	for _, m := range []string{"half_even", "floor", "up", "05up"} {
		out = append(out, inst("VerifDivInt", 12, base, "mode", m, "K", 3, "Kd", 2, "W", 2))
	}
	return out
}

func quantizeInstances(tier string, traps string) []Instance {
	base := p("Pmin", 1, "regime", 0, "traps", traps)
	var out []Instance
	K, W := 3, 3
	modes := []string{"half_even", "floor", "up", "05up"}
	if tier == "thorough" {
		K, W = 6, 6
		modes = allModes
	}
	for _, m := range allModes {
		out = append(out, inst("VerifQuantize", 5, base, "mode", m, "K", K, "W", W, "op", "quantize"))
	}
	for _, m := range modes {
		out = append(out, inst("VerifQuantize", 1, base, "mode", m, "K", K+1, "W", W+1, "op", "rti_exact"))
		out = append(out, inst("VerifQuantize", 1, base, "mode", m, "K", K+1, "W", W+1, "op", "rti_value"))
		out = append(out, inst("VerifCeilFloor", 1, base, "mode", m, "K", K+1, "W", W+1, "op", "ceil"))
		out = append(out, inst("VerifCeilFloor", 1, base, "mode", m, "K", K+1, "W", W+1, "op", "floor"))
	}
	return out
}
