package main

import (
	"fmt"
)

// CheckDef describes how one property is decided.
type CheckDef struct {
	Prop            string
	Enable          []string // assertion-id prefixes this property owns
	Instances       func(tier string) []Instance
	RequireCovers   []string
	PathModels      bool
	PathModelSample int
	Stubs           []string
	Bounds          map[string]interface{}
	Outside         []string
	Assumptions     []string
}

var allModes = []string{"down", "half_up", "half_even", "ceiling", "floor", "half_down", "up", "05up", ""}

func p(kv ...interface{}) map[string]string {
	m := map[string]string{}
	for i := 0; i+1 < len(kv); i += 2 {
		m[fmt.Sprint(kv[i])] = fmt.Sprint(kv[i+1])
	}
	return m
}

func merge(a map[string]string, b map[string]string) map[string]string {
	m := map[string]string{}
	for k, v := range a {
		m[k] = v
	}
	for k, v := range b {
		m[k] = v
	}
	return m
}

var stubsLevelA = []string{
	"apd.BigInt methods (Set, SetInt64, SetUint64, Add, Sub, Mul, Quo, Rem, QuoRem, Cmp, CmpAbs, Sign, Abs, Neg, Bit, BitLen, IsUint64, IsInt64, Uint64, Int64, Exp, Lsh, Rsh, String, Append, SetString, Bytes, FillBytes, SetBytes): mathematical integers with math/big's documented semantics (T-division; division by zero is a panic obligation); their agreement with the real bigint.go code is the subject of C16",
	"apd.NumDigits: fork on 10^(n-1) <= |b| < 10^n (the real table.go code is executed and checked in C19)",
	"errors.New, fmt.Errorf: fresh non-nil error, message ignored",
	"(Condition).String inside error construction: empty body (formatting is not the subject; executed for real in the C04 harness)",
	"strings.HasPrefix/IndexByte/ToLower (ASCII only), strconv.ParseInt/ParseUint/AppendInt/AppendUint (base 10): documented contracts",
}

var assumeCommon = []string{
	"go/ssa lowering of the Go source is faithful (x/tools v0.29.0); the gc build used for native replay agrees with it",
	"z3 5.1 answers are correct (unknown/timeout is reported as undecided, never as a pass)",
	"math/big, strconv, strings behave as documented (stub boundary)",
	"operands and contexts are well-formed as stated in the property's quantifier; everything outside the stated bounds is not claimed",
}

func roundInstances(tier string, extra map[string]string) []Instance {
	K, W := 5, 8
	if tier == "thorough" {
		K, W = 9, 14
	}
	var out []Instance
	for _, m := range allModes {
		out = append(out, Instance{Harness: "VerifRound", Params: merge(p("mode", m, "K", K, "W", W, "Pmin", 1, "regime", 0), extra), Weight: K})
	}
	return out
}

var checkDefs = map[string]*CheckDef{}

func init() {
	boundsArith := map[string]interface{}{
		"quick":    map[string]interface{}{"coefficient_digits_K": 5, "precision": "1..K", "exponent_window_W": 8, "Emin": "[-W,0]", "Emax": "[0,W]", "modes": "8 + empty default", "trap_sets": "all 2^32 (symbolic)"},
		"thorough": map[string]interface{}{"coefficient_digits_K": 9, "precision": "1..K", "exponent_window_W": 14, "Emin": "[-W,0]", "Emax": "[0,W]", "modes": "8 + empty default", "trap_sets": "all 2^32 (symbolic)"},
	}
	outsideArith := []string{"coefficients with more than K digits", "exponents outside the stated windows", "iterative functions (Sqrt, Cbrt, Exp, Ln, Log10, Pow): see not_applicable / per-property notes"}

	checkDefs["C01"] = &CheckDef{Prop: "C01", Enable: []string{"C01."},
		Instances:  func(tier string) []Instance { return roundInstances(tier, nil) },
		PathModels: true, Stubs: stubsLevelA, Bounds: boundsArith, Outside: outsideArith, Assumptions: assumeCommon,
		RequireCovers: []string{"round.subnormal", "round.overflow", "round.inexact"}}
	checkDefs["C02"] = &CheckDef{Prop: "C02", Enable: []string{"C02."},
		Instances:  func(tier string) []Instance { return roundInstances(tier, nil) },
		PathModels: true, Stubs: stubsLevelA, Bounds: boundsArith, Outside: outsideArith, Assumptions: assumeCommon}
	checkDefs["C03"] = &CheckDef{Prop: "C03", Enable: []string{"C03."},
		Instances:  func(tier string) []Instance { return roundInstances(tier, nil) },
		PathModels: true, Stubs: stubsLevelA, Bounds: boundsArith, Outside: outsideArith, Assumptions: assumeCommon}
	checkDefs["C07"] = &CheckDef{Prop: "C07", Enable: []string{"C07."},
		Instances:  func(tier string) []Instance { return roundInstances(tier, nil) },
		PathModels: true, Stubs: stubsLevelA, Bounds: boundsArith, Outside: outsideArith, Assumptions: assumeCommon}
}
