#!/bin/bash
# try_benign.sh <worktree> <patch> <property>...: applies a behaviour-preserving change in a scratch
# worktree of /repo and runs the given checks against THAT tree (VERIF_REPO) with a scratch copy of
# the harnesses as VERIF_DIR, so /repo, /verif/evidence and /verif/replays are untouched.
# Any VIOLATION or UNDECIDED here is a fault of the machinery (false alarm / fragility).
wt=$1; patch=$2; shift 2
vd=/tmp/vb_$(basename $wt)
rm -rf $vd; mkdir -p $vd/evidence; cp -r /verif/harness /verif/known_findings.json $vd/
git -C $wt checkout -q -- . ; git -C $wt apply $patch || { echo "APPLY-FAILED $patch"; exit 2; }
for prop in "$@"; do
  start=$(date +%s)
  VERIF_REPO=$wt VERIF_DIR=$vd /verif/bin/vcheck run $prop > $vd/$prop.log 2>&1; rc=$?
  end=$(date +%s)
  echo "$(basename $wt)/$(basename $patch) on $prop: exit=$rc in $((end-start))s : $(grep -m3 'VIOLATION\|UNDECIDED\|MISMATCH\|engine error\|unsupported' $vd/$prop.log | cut -c1-200 | tr '\n' '|')"
done
git -C $wt checkout -q -- .
