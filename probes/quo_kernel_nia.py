import sys, time
from z3 import *
K=int(sys.argv[1]); mode=sys.argv[2]; theory=sys.argv[3] if len(sys.argv)>3 else 'int'
def nd_of(x,K):
    r=IntVal(K+1)
    for k in range(K,0,-1): r=If(x<10**k, IntVal(k), r)
    return r
def pow10(k,K):
    r=IntVal(10**K)
    for i in range(K-1,-1,-1): r=If(k==i, IntVal(10**i), r)
    return r
xc,yc,P,q,r=Ints('xc yc P q r'); neg=Bool('neg')
s=Solver()
s.add(xc>=1,xc<10**K,yc>=1,yc<10**K,P>=1,P<=K)
ndx=nd_of(xc,K); ndy=nd_of(yc,K); ndd=ndx-ndy
dvd=If(ndd<0, xc*pow10(-ndd,K), xc)
dvs=If(ndd>0, yc*pow10(ndd,K), yc)
lt=dvd<dvs
dvd2=If(lt,dvd*10,dvd)
N=dvd2*pow10(P-1,K)
s.add(N==q*dvs+r, r>=0, r<dvs)
half=If(2*r<dvs,-1,If(2*r==dvs,0,1))
def addone(mode,y,neg,half):
    if mode=='down': return BoolVal(False)
    if mode=='up': return BoolVal(True)
    if mode=='half_up': return half>=0
    if mode=='half_even': return Or(half>0, And(half==0, y%2==1))
    if mode=='ceiling': return Not(neg)
inc=And(r!=0, addone(mode,q,neg,half))
c2=If(inc,q+1,q)
# claims: q has exactly P digits; c2 correct rounding of N/dvs (no carry renorm, like the code)
digits_ok=And(q>=pow10(P-1,K), q<pow10(P,K))
if mode=='down': rel=And(c2*dvs<=N, N<(c2+1)*dvs)
elif mode=='up': rel=And(c2*dvs>=N, (c2-1)*dvs<N)
elif mode in('half_up','half_even'): rel=And(2*(N-c2*dvs)<=dvs, 2*(c2*dvs-N)<=dvs)
elif mode=='ceiling': rel=If(neg, And(c2*dvs<=N, N<(c2+1)*dvs), And(c2*dvs>=N, (c2-1)*dvs<N))
which=sys.argv[4] if len(sys.argv)>4 else 'both'
goal=And(digits_ok,rel) if which=='both' else (digits_ok if which=='digits' else rel)
s.add(Not(goal))
open("q_%s_%s_%s.smt2"%(K,mode,which),"w").write(s.to_smt2())
t=time.time(); res=s.check(); print(K,mode,which,res,round(time.time()-t,2))
if res==sat: print(s.model())
