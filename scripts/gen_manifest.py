#!/usr/bin/env python3
"""Regenerates /verif/MANIFEST.json from the table below (kept in one place so that it stays valid)."""
import json, subprocess

claimed = {
 "C01": ("exactly rounded results of the single-rounding operations", "§5 C01"),
 "C02": ("condition flags are a function of the exact result", "§5 C02"),
 "C03": ("err != nil iff trapped condition or system limit; traps never change results; ErrDecimal wrappers", "§5 C03"),
 "C05": ("aliasing patterns by self-composition against the distinct layout", "§5 C05"),
 "C06": ("destination independence by self-composition; write monitor on operands, context and package state", "§5 C06"),
 "C07": ("every finite result fits the context", "§5 C07"),
 "C08": ("special-value table for every operation", "§5 C08"),
 "C09": ("Quantize / RoundToIntegral / Ceil / Floor against an integer-rounding characterisation", "§5 C09"),
 "C10": ("QuoInteger/Rem division identity over the upscaled integers", "§5 C10"),
 "C04": ("run-time panic obligations on every executed instruction, parser well-formedness on all short byte strings, bounded-termination (hang) check of the iterative functions under every trap set", "§5 C04"),
 "C13": ("format -> parse round trip on symbolic decimals for every text form; Compose(Decompose); SetFloat64 then Float64 on every normal float64 of an exponent window (float64 as exact integers, strconv by contract)", "§5 C13, §12a"),
 "C14": ("String against an independent to-scientific-string formatter; parser acceptance against the unrolled grammar for ALL ASCII strings up to 7 bytes; Format flags", "§5 C14"),
 "C15": ("Cmp against cross-scaled integers, CmpTotal against a totally ordered key", "§5 C15"),
 "C16": ("one inductive step of each BigInt method from arbitrary valid representations against math/big semantics: real inner/updateInner/uint64 fast paths executed from SSA in bit-vector logic, representation invariant incl. zero-never-negative, operands unchanged, alias patterns", "§5 C16"),
 "C17": ("Int64, Modf and the integer constructors are exact; Float64 is the nearest float64 (float64 arithmetic as exact integers)", "§5 C17, §12a"),
 "C18": ("no encoded operation writes shared memory (write-set monitor), hence no race under any interleaving", "§5 C18"),
 "C20": ("the eight rounding modes bracket each other; commutativity, mirror, scaling and monotonicity relations by self-composition, no oracle", "§5 C20"),
 "C19": ("real NumDigits code for every bit length; Reduce value, count and no trailing zero", "§5 C19"),
}
not_applicable = {
 "C11": "Newton cores of Sqrt/Cbrt: chains of dependent symbolic/symbolic decimal divisions at >= 12 working digits are undecided by z3/cvc5 in NIA and QF_BV at the smallest configuration the code admits; no honest bound exists (DESIGN.md §5 C11)",
 "C12": "Exp/Ln/Log10/Pow depend on float64 detours (strconv.ParseFloat, math.Log), up to 1000 Taylor terms and an oracle (1 ulp of a transcendental) that no available SMT theory expresses (DESIGN.md §5 C12)",
}
pending = []

checks=[]
for pid,(text,ref) in sorted(claimed.items()):
    checks.append({
      "property_id": pid,
      "quick_cmd": "./bin/vcheck run %s --tier quick" % pid,
      "thorough_cmd": "./bin/vcheck run %s --tier thorough" % pid,
      "evidence_file": "/verif/evidence/%s.json" % pid,
      "replay_cmd_template": "./bin/vcheck replay {path}",
      "engine": "vcheck",
      "level_claimed": {"category": "model_checking",
         "text": "Bounded symbolic execution of the real Go code (go/ssa -> SMT-LIB2, z3): %s. Every feasible path of the harness within the stated digit/exponent bounds is enumerated by forking, the negated assertion is discharged as unsat on each, counterexamples are replayed natively before they are reported. Holds within the bounds only." % text,
         "design_ref": ref},
      "level_note": "Trusted: go/ssa lowering, the SSA->SMT encoder (validated per path against the native build), z3, math/big and strconv contracts at the stub boundary, the harness oracle (a characterisation over exact integers). Bounds and stubs are listed in the evidence file.",
      "technique": "solver-based bounded symbolic execution of go/ssa (SMT, z3) with native counterexample replay",
    })
na=[{"property_id":k,"reason":v} for k,v in sorted(not_applicable.items())]
na+= [{"property_id":k,"reason":"check under construction in this session (see DESIGN.md §11 build order); not claimed until its harness runs clean"} for k in pending if k not in claimed]
m={
 "version":1,
 "setup_cmd":"cd /verif/engine && GOFLAGS=-mod=mod GOPROXY=off GOSUMDB=off GOTOOLCHAIN=local go build -o ../bin/vcheck ./cmd/vcheck && ../bin/vcheck selftest",
 "hooks":{"guard":"verif","enable":"harness files /verif/harness/*.go (//go:build verif, package apd) are injected into /repo through a build overlay (packages.Config.Overlay for the SSA load, go test -overlay for native replay); /repo carries no hook code","baseline_off_cmd":"/verif/scripts/baseline_check.sh","source_commits":[],"add_only":True},
 "engines":[{"name":"vcheck","path":"/verif/engine","serves_properties":sorted(claimed.keys()),"kind_free_text":"go/ssa symbolic executor emitting SMT-LIB2 for z3 (decision-replay path forking, concrete pointer shapes, Level-A integer model of apd.BigInt), native replay through go test -overlay"}],
 "checks":checks,
 "not_applicable":sorted(na,key=lambda x:x["property_id"]),
 "notes":"All checks regenerate their encoding from /repo's working tree on every run. Exit 0 = held within bounds; 1 = VIOLATION (natively reproduced); 2 = undecided (solver unknown, unwinding failure, engine error) - never reported as a pass. Known findings: /verif/known_findings.json."
}
json.dump(m,open('/verif/MANIFEST.json','w'),indent=1)
print("manifest written:",len(checks),"checks")
