//go:build verif

package apd

// Oracles shared by the harnesses. They are *characterisations* of the
// correctly rounded result over exact integers (DESIGN.md §4), written
// branch-free where possible (verifAnd/verifOr) so that they do not multiply
// the symbolic paths of the implementation under test.

// verifCtx builds an arbitrary well-formed context within the bounds K, W of
// the harness instance. The rounding mode is a concrete instance parameter.
func verifCtx() *Context {
	K := verifParamInt("K")
	W := verifParamInt("W")
	pmin := verifParamInt("Pmin")
	regime := verifParamInt("regime")
	c := &Context{}
	c.Rounding = Rounder(verifParamStr("mode"))
	c.Precision = uint32(verifConcretize(verifNondetInt("P", pmin, K)))
	if regime == 0 {
		c.MinExponent = int32(verifNondetInt("Emin", -W, 0))
		c.MaxExponent = int32(verifNondetInt("Emax", 0, W))
	} else {
		c.MinExponent = MinExponent
		c.MaxExponent = MaxExponent
	}
	verifAssume(int64(c.Precision) <= int64(c.MaxExponent))
	if verifParamStr("traps") == "sym" {
		c.Traps = Condition(verifNondetBits32("traps"))
	}
	return c
}

// verifExpBase is the centre of the operand exponent window for the regime.
func verifExpBase() int64 {
	W := verifParamInt("W")
	switch verifParamInt("regime") {
	case 1:
		return MinExponent + W
	case 2:
		return MaxExponent - W
	}
	return 0
}

// verifFinite fills d with an arbitrary well-formed finite decimal of at most K digits
// whose exponent lies in the instance's window.
func verifFinite(name string, d *Decimal) {
	K := verifParamInt("K")
	W := verifParamInt("W")
	// an optional per-operand offset of the exponent window (e.g. "ybase": exponent gaps
	// beyond the 128-entry power-of-ten table)
	base := verifExpBase() + verifParamIntOr(name+"base", 0)
	verifNondetCoeff(name+"c", &d.Coeff, int(K))
	d.Negative = verifNondetBool(name + "neg")
	d.Exponent = int32(verifNondetInt(name+"e", base-W, base+W))
	d.Form = Finite
	if verifParamInt("regime") != 0 {
		// well-formed: adjusted exponent within the package limits
		adj := int64(d.Exponent) + verifNumDigits(&d.Coeff) - 1
		verifAssume(adj <= MaxExponent)
		verifAssume(adj >= MinExponent)
		verifAssume(int64(d.Exponent) <= MaxExponent)
		verifAssume(int64(d.Exponent) >= MinExponent)
	}
}

// verifDivisor fills d with an arbitrary non-zero finite divisor of at most Kd digits. Its
// coefficient is enumerated value by value (symbolic-by-symbolic division is outside the
// solver's reach; with a concrete divisor coefficient every query is linear). Sign and
// exponent stay symbolic.
func verifDivisor(name string, d *Decimal) {
	Kd := verifParamInt("Kd")
	W := verifParamInt("W")
	base := verifExpBase()
	verifNondetCoeff(name+"c", &d.Coeff, int(Kd))
	verifAssume(d.Coeff.Sign() != 0)
	verifConcretizeBig(&d.Coeff)
	d.Negative = verifNondetBool(name + "neg")
	d.Exponent = int32(verifNondetInt(name+"e", base-W, base+W))
	d.Form = Finite
}

// verifHavoc gives the destination an arbitrary previous content (C06).
func verifHavoc(name string, d *Decimal) {
	K := verifParamInt("K")
	d.Form = Form(verifNondetInt(name+"form", 0, 3))
	d.Negative = verifNondetBool(name + "neg")
	d.Exponent = int32(verifNondetInt(name+"e", MinExponent, MaxExponent))
	verifNondetCoeff(name+"c", &d.Coeff, int(2*K))
}

func verifModeName(c *Context) string {
	switch c.Rounding {
	case RoundDown, RoundHalfUp, RoundHalfEven, RoundCeiling, RoundFloor, RoundHalfDown, RoundUp, Round05Up:
		return string(c.Rounding)
	}
	return "half_up"
}

// verifSpecResult characterises the correctly rounded result of the exact value
// (neg ? -1 : 1) * N * 10^e in context c (N >= 0), for the returned (d, res).
// It returns: val (C01: value/sign/infinity), flg (C02: conditions), fit (C07).
func verifSpecResult(c *Context, neg bool, N *BigInt, e int64, d *Decimal, res Condition) (val, flg, fit bool) {
	return verifSpecResultQ(c, neg, N, bigOne, e, d, res)
}

// verifFit is the C07 post-condition on a result.
func verifFit(c *Context, d *Decimal) bool {
	P := int64(c.Precision)
	emax := int64(c.MaxExponent)
	etiny := int64(c.MinExponent) - P + 1
	if d.Form != Finite {
		return d.Form == Infinite || d.Form == NaN
	}
	ndr := verifNumDigits(&d.Coeff)
	fit := d.Coeff.Sign() >= 0
	if P > 0 {
		fit = verifAnd(fit, ndr <= P)
	}
	fit = verifAnd(fit, int64(d.Exponent)+ndr-1 <= emax)
	if P > 0 {
		// (with rounding disabled the subnormal exponent Emin-P+1 is not a meaningful bound)
		fit = verifAnd(fit, verifOr(d.Coeff.Sign() == 0, int64(d.Exponent) >= etiny))
	}
	return fit
}

// verifSpecResultQ is the general form: exact value (neg ? -1 : 1) * N/D * 10^e, N >= 0, D >= 1.
func verifSpecResultQ(c *Context, neg bool, N, D *BigInt, e int64, d *Decimal, res Condition) (val, flg, fit bool) {
	P := int64(c.Precision)
	emin, emax := int64(c.MinExponent), int64(c.MaxExponent)
	etiny := emin - P + 1
	mode := verifModeName(c)
	val, flg, fit = true, true, true

	if res&(SystemOverflow|SystemUnderflow) != 0 {
		// Value is unspecified when a system limit was hit (an error is returned). A system
		// condition is legitimate only at the package limits: the exact value's exponent or
		// adjusted exponent (possibly after a rounding carry) is outside +-100000.
		if N.Sign() == 0 {
			flg = verifOr(e > MaxExponent, e < MinExponent)
			return
		}
		ndN := verifNumDigits(N)
		hiAdj := e + ndN // upper bound of the adjusted exponent incl. a carry (D >= 1)
		loAdj := e - 1
		if D != bigOne {
			loAdj = e + ndN - verifNumDigits(D) - 1
		}
		if res&SystemOverflow != 0 {
			flg = hiAdj > MaxExponent
		} else {
			flg = verifOr(loAdj < MinExponent, e < MinExponent)
		}
		return
	}
	noBad := res&^(Overflow|Underflow|Inexact|Subnormal|Rounded|Clamped) == 0
	fit = verifFit(c, d)

	if N.Sign() == 0 {
		// exact zero: a zero of the same sign; only the exponent may be clamped
		val = verifAnd(d.Form == Finite, verifAnd(d.Coeff.Sign() == 0, d.Negative == neg))
		flg = verifAnd(noBad, res&(Inexact|Subnormal|Underflow|Overflow) == 0)
		return
	}

	// adjusted exponent of the exact value: 10^adj <= N/D*10^e < 10^(adj+1)
	nd := verifNumDigits(N)
	lead := nd - 1 // adj - e
	if D != bigOne {
		ndD := verifNumDigits(D)
		lead = nd - ndD
		var l, r BigInt
		if lead >= 0 {
			verifPow10(&r, lead)
			r.Mul(&r, D)
			l.Set(N)
		} else {
			verifPow10(&l, -lead)
			l.Mul(&l, N)
			r.Set(D)
		}
		if l.Cmp(&r) < 0 {
			lead--
		}
	}
	adj := e + lead
	subn := adj < emin
	if P == 0 && (subn || adj > emax) {
		// Rounding disabled: the claim is the exact result "subject only to the exponent
		// limits"; what happens to an exact result outside [Emin, Emax] is not specified
		// (apd's subnormal exponent Emin-P+1 degenerates to Emin+1).
		return true, true, fit
	}
	// s = q - e, where 10^q is the rounding quantum (may be negative for quotients)
	var s int64
	limited := false // is there a quantum at all (P == 0 and not subnormal: exact result required)
	if subn {
		if adj < etiny-1 {
			// |v| is below a tenth of the quantum 10^etiny: the correctly rounded
			// result is 0 or one quantum, whatever the exact distance.
			return verifSpecTiny(c, neg, d, res, noBad, fit)
		}
		s = verifConcretize(etiny - e)
		limited = true
	} else if P > 0 {
		s = lead - P + 1
		limited = true
	}
	if D == bigOne && s < 0 {
		s = 0 // the exact value is representable with its own exponent
	}
	var X0, H0, tmp BigInt
	if s >= 0 {
		verifPow10(&tmp, s)
		X0.Set(N)
		H0.Mul(D, &tmp)
	} else {
		verifPow10(&tmp, -s)
		X0.Mul(N, &tmp)
		H0.Set(D)
	}

	// overflow threshold: the rounded magnitude reaches 10^(emax+1)
	thr := false
	if !subn && P > 0 {
		var top, topH, twoX, twoTop BigInt
		verifPow10(&top, P)
		top.Sub(&top, bigOne) // 10^P - 1
		topH.Mul(&top, &H0)
		twoX.Add(&X0, &X0)
		twoTop.Add(&topH, &topH)
		twoTop.Add(&twoTop, &H0) // (2*top+1)*H0
		switch mode {
		case "down", "05up":
			thr = false
		case "up":
			thr = X0.Cmp(&topH) > 0
		case "half_up", "half_even":
			thr = twoX.Cmp(&twoTop) >= 0
		case "half_down":
			thr = twoX.Cmp(&twoTop) > 0
		case "ceiling":
			thr = verifAnd(!neg, X0.Cmp(&topH) > 0)
		case "floor":
			thr = verifAnd(neg, X0.Cmp(&topH) > 0)
		}
	}
	ovf := verifOr(adj > emax, verifAnd(adj == emax, thr))

	if d.Form != Finite {
		val = verifAnd(d.Form == Infinite, verifAnd(ovf, d.Negative == neg))
		flg = verifAnd(noBad, verifAnd(ovf, verifAnd(res.Overflow(), verifAnd(res.Inexact(), verifAnd(
			verifIff(res.Subnormal(), subn), verifIff(res.Underflow(), subn))))))
		return
	}

	// finite result: express it in units of the quantum 10^q, q = e + s
	k := verifConcretize(int64(d.Exponent) - e - s)
	var U, A, X, Y, H BigInt
	if k >= 0 {
		verifPow10(&tmp, k)
		A.Mul(&d.Coeff, &tmp)
		U.Set(bigOne)
	} else {
		verifPow10(&U, -k)
		A.Set(&d.Coeff)
	}
	X.Mul(&X0, &U)
	Y.Mul(&A, &H0)
	H.Mul(&H0, &U)
	var r1 BigInt
	r1.Rem(&A, &U)
	multiple := r1.Sign() == 0
	exact := X.Cmp(&Y) == 0

	var YpH, YmH BigInt
	YpH.Add(&Y, &H)
	YmH.Sub(&Y, &H)
	floorOK := verifAnd(Y.Cmp(&X) <= 0, X.Cmp(&YpH) < 0)
	ceilOK := verifAnd(YmH.Cmp(&X) < 0, X.Cmp(&Y) <= 0)
	var okMode bool
	if !limited {
		okMode = exact
	} else {
		switch mode {
		case "down":
			okMode = floorOK
		case "up":
			okMode = ceilOK
		case "ceiling":
			okMode = verifOr(verifAnd(neg, floorOK), verifAnd(!neg, ceilOK))
		case "floor":
			okMode = verifOr(verifAnd(neg, ceilOK), verifAnd(!neg, floorOK))
		case "half_up", "half_down", "half_even":
			var D2 BigInt
			D2.Sub(&X, &Y)
			D2.Abs(&D2)
			D2.Add(&D2, &D2) // 2|X-Y|
			c2 := D2.Cmp(&H)
			var tie bool
			switch mode {
			case "half_up":
				tie = Y.Cmp(&X) > 0
			case "half_down":
				tie = Y.Cmp(&X) < 0
			default:
				var U2, r2 BigInt
				U2.Add(&U, &U)
				r2.Rem(&A, &U2)
				tie = r2.Sign() == 0
			}
			okMode = verifOr(c2 < 0, verifAnd(c2 == 0, tie))
		case "05up":
			var U5, r5, Am, r6 BigInt
			U5.Mul(&U, bigFive)
			r5.Rem(&A, &U5)
			Am.Sub(&A, &U)
			r6.Rem(&Am, &U5)
			lowStrict := verifAnd(Y.Cmp(&X) < 0, X.Cmp(&YpH) < 0)
			highStrict := verifAnd(YmH.Cmp(&X) < 0, X.Cmp(&Y) < 0)
			okMode = verifOr(exact, verifOr(verifAnd(lowStrict, r5.Sign() != 0), verifAnd(highStrict, r6.Sign() == 0)))
		}
	}
	val = verifAnd(verifNot(ovf), verifAnd(d.Negative == neg, verifAnd(multiple, okMode)))

	inexact := verifNot(exact)
	flg = verifAnd(noBad, verifAnd(verifIff(res.Inexact(), inexact), verifAnd(verifIff(res.Subnormal(), subn),
		verifAnd(verifIff(res.Underflow(), verifAnd(subn, inexact)), verifAnd(verifNot(res.Overflow()),
			verifImplies(res.Inexact(), res.Rounded()))))))
	return
}

// verifErrSpec is the C03 contract of a single-rounding operation.
func verifErrSpec(c *Context, res Condition, err error) bool {
	want := verifOr(res&c.Traps != 0, res&(SystemOverflow|SystemUnderflow) != 0)
	return verifIff(err != nil, want)
}

// verifSpecTiny: 0 < |v| < 10^(etiny-1). The result is 0 (modes that round toward
// zero here) or exactly one quantum 10^etiny (modes that round away), with the sign of v.
func verifSpecTiny(c *Context, neg bool, d *Decimal, res Condition, noBad, fit bool) (bool, bool, bool) {
	etiny := int64(c.MinExponent) - int64(c.Precision) + 1
	away := false
	switch verifModeName(c) {
	case "up", "05up":
		away = true
	case "ceiling":
		away = !neg
	case "floor":
		away = neg
	}
	if d.Form != Finite {
		return false, false, fit
	}
	var want, one BigInt
	if away {
		// one quantum, possibly written with a smaller exponent
		k := verifConcretize(etiny - int64(d.Exponent))
		if k < 0 {
			return false, false, fit
		}
		verifPow10(&one, k)
		want.Set(&one)
	}
	val := verifAnd(d.Negative == neg, d.Coeff.Cmp(&want) == 0)
	flg := verifAnd(noBad, res&(Inexact|Subnormal|Underflow|Rounded) == Inexact|Subnormal|Underflow|Rounded && res&Overflow == 0)
	return val, flg, fit
}
