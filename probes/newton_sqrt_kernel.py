# Newton sqrt kernel: fixed-point integers at S digits; iterate a' = (a + f*10^S/a)/2 ; claim |a_n^2 - f*10^S| <= bound after n steps
import sys,time
from z3 import *
S=int(sys.argv[1]); n=int(sys.argv[2]); th=sys.argv[3]
if th=='int':
    f=Int('f'); s=Solver(); s.add(f>=10**(S-1), f<10**S)
    a=(819*f)/1000+259*10**(S-3)
    F=f*10**S
    for i in range(n):
        q=Int('q%d'%i); r=Int('r%d'%i)
        s.add(F==q*a+r, r>=0, r<a)
        a=(a+q)/2
    # a should be within 2 of floor sqrt(F): (a-2)^2 <= F <= (a+2)^2
    s.add(Not(And((a-2)*(a-2)<=F, F<=(a+2)*(a+2))))
else:
    W=8*S+8
    f=BitVec('f',W); s=Solver(); s.add(UGE(f,10**(S-1)), ULT(f,10**S))
    a=UDiv(819*f,BitVecVal(1000,W))+259*10**(S-3)
    F=f*BitVecVal(10**S,W)
    for i in range(n):
        a=LShR(a+UDiv(F,a),1)
    s.add(Not(And(ULE((a-2)*(a-2),F), ULE(F,(a+2)*(a+2)))))
s.set('timeout',60000)
t=time.time(); r=s.check(); print(S,n,th,r,round(time.time()-t,1))
