//go:build verif

package apd

// Two-run (self-composition) harnesses: the same operation is executed twice on the same
// symbolic operands under two layouts / pre-states / trap sets and the observable outcomes
// are compared. No oracle is involved.

// verifApply dispatches a Context operation by name. aux is the integer argument of
// Quantize; the int result is Reduce's count (0 otherwise).
func verifApply(op string, c *Context, d, x, y *Decimal, aux int32) (int, Condition, error) {
	var res Condition
	var err error
	n := 0
	switch op {
	case "add":
		res, err = c.Add(d, x, y)
	case "sub":
		res, err = c.Sub(d, x, y)
	case "mul":
		res, err = c.Mul(d, x, y)
	case "quo":
		res, err = c.Quo(d, x, y)
	case "quoint":
		res, err = c.QuoInteger(d, x, y)
	case "rem":
		res, err = c.Rem(d, x, y)
	case "cmp":
		res, err = c.Cmp(d, x, y)
	case "abs":
		res, err = c.Abs(d, x)
	case "neg":
		res, err = c.Neg(d, x)
	case "round":
		res, err = c.Round(d, x)
	case "reduce":
		n, res, err = c.Reduce(d, x)
	case "quantize":
		res, err = c.Quantize(d, x, aux)
	case "rti_value":
		res, err = c.RoundToIntegralValue(d, x)
	case "rti_exact":
		res, err = c.RoundToIntegralExact(d, x)
	case "ceil":
		res, err = c.Ceil(d, x)
	case "floor":
		res, err = c.Floor(d, x)
	case "cbrt":
		res, err = c.Cbrt(d, x)
	case "sqrt":
		res, err = c.Sqrt(d, x)
	case "exp":
		res, err = c.Exp(d, x)
	case "ln":
		res, err = c.Ln(d, x)
	case "log10":
		res, err = c.Log10(d, x)
	case "pow":
		res, err = c.Pow(d, x, y)
	default:
		panic("verifApply: unknown op " + op)
	}
	return n, res, err
}

func verifIsBinary(op string) bool {
	switch op {
	case "add", "sub", "mul", "quo", "quoint", "rem", "cmp", "pow":
		return true
	}
	return false
}

func verifIsDivision(op string) bool { return op == "quo" || op == "quoint" || op == "rem" }

// verifSameObservable: what the public value-level API can distinguish.
func verifSameObservable(a, b *Decimal) bool {
	if a.Form != b.Form {
		return false
	}
	same := a.Negative == b.Negative
	switch a.Form {
	case Finite:
		same = verifAnd(same, verifAnd(a.Exponent == b.Exponent, a.Coeff.Cmp(&b.Coeff) == 0))
	case NaN, NaNSignaling:
		same = verifAnd(same, a.Coeff.Cmp(&b.Coeff) == 0)
	}
	return same
}

// verifOperands fills x (and y for binary operations) with arbitrary decimals of any form.
func verifOperands(op string, x, y *Decimal) {
	verifAnyDecimal("x", x)
	if verifIsBinary(op) {
		verifAnyDecimal("y", y)
		if verifIsDivision(op) {
			// division by a symbolic coefficient is outside the solver's reach: enumerate it
			verifConcretizeBig(&y.Coeff)
		}
	}
}

// VerifAlias: param op, pat in dx, dy, xy, dxy (C05).
func VerifAlias() {
	c := verifCtx()
	op := verifParamStr("op")
	pat := verifParamStr("pat")
	var x, y Decimal
	verifOperands(op, &x, &y)
	if verifIsDivision(op) && (pat == "xy" || pat == "dxy") {
		verifConcretizeBig(&x.Coeff)
	}
	aux := int32(0)
	if op == "quantize" {
		aux = int32(verifNondetInt("qe", -4, 4))
	}
	// reference layout: three distinct objects
	var d1, x1, y1 Decimal
	x1.Set(&x)
	y1.Set(&y)
	if pat == "xy" || pat == "dxy" {
		y1.Set(&x) // "both operands are the same object" means they hold x's value
	}
	n1, res1, err1 := verifApply(op, c, &d1, &x1, &y1, aux)

	// aliased layout on fresh copies
	var d2, x2, y2 Decimal
	x2.Set(&x)
	y2.Set(&y)
	var n2 int
	var res2 Condition
	var err2 error
	out := &d2
	switch pat {
	case "dx":
		n2, res2, err2 = verifApply(op, c, &x2, &x2, &y2, aux)
		out = &x2
	case "dy":
		n2, res2, err2 = verifApply(op, c, &y2, &x2, &y2, aux)
		out = &y2
	case "xy":
		n2, res2, err2 = verifApply(op, c, &d2, &x2, &x2, aux)
	case "dxy":
		n2, res2, err2 = verifApply(op, c, &x2, &x2, &x2, aux)
		out = &x2
	}
	tag := "C05." + op + "." + pat
	verifObserveOut(op+".ref", &d1, res1, err1)
	verifObserveOut(op+".alias", out, res2, err2)
	verifAssert(verifSameObservable(&d1, out), tag+".value")
	verifAssert(res1 == res2, tag+".flags")
	verifAssert((err1 != nil) == (err2 != nil), tag+".err")
	verifAssert(n1 == n2, tag+".count")
	// the non-destination operand is still untouched in the aliased layout
	if pat == "dx" && verifIsBinary(op) {
		verifAssert(verifSameObservable(&y2, &y), tag+".other")
	}
	if pat == "dy" {
		verifAssert(verifSameObservable(&x2, &x), tag+".other")
	}
}

// VerifAliasDecimal: Decimal.Modf/Neg/Abs/Reduce/Set with outputs aliasing the receiver (C05).
func VerifAliasDecimal() {
	op := verifParamStr("op")
	var x Decimal
	verifFinite("x", &x)
	switch op {
	case "modf_integ", "modf_frac":
		var i1, f1, x1 Decimal
		x1.Set(&x)
		x1.Modf(&i1, &f1)
		var x2, o2 Decimal
		x2.Set(&x)
		if op == "modf_integ" {
			x2.Modf(&x2, &o2) // integ == receiver
			verifAssert(verifSameObservable(&x2, &i1), "C05.modf.integ_alias.integ")
			verifAssert(verifSameObservable(&o2, &f1), "C05.modf.integ_alias.frac")
		} else {
			x2.Modf(&o2, &x2) // frac == receiver
			verifAssert(verifSameObservable(&o2, &i1), "C05.modf.frac_alias.integ")
			verifAssert(verifSameObservable(&x2, &f1), "C05.modf.frac_alias.frac")
		}
	case "neg", "abs", "set", "reduce":
		var d1, x1, x2 Decimal
		x1.Set(&x)
		x2.Set(&x)
		n1, n2 := 0, 0
		switch op {
		case "neg":
			d1.Neg(&x1)
			x2.Neg(&x2)
		case "abs":
			d1.Abs(&x1)
			x2.Abs(&x2)
		case "set":
			d1.Set(&x1)
			x2.Set(&x2)
		case "reduce":
			_, n1 = d1.Reduce(&x1)
			_, n2 = x2.Reduce(&x2)
		}
		verifAssert(verifSameObservable(&d1, &x2), "C05.dec"+op+".value")
		verifAssert(n1 == n2, "C05.dec"+op+".count")
	}
}

// VerifDestIndep: the outcome does not depend on what the destination held before (C06);
// operands and context are frozen (write monitor, C06/C18).
func VerifDestIndep() {
	c := verifCtx()
	op := verifParamStr("op")
	var x, y, d1, d2 Decimal
	verifOperands(op, &x, &y)
	aux := int32(0)
	if op == "quantize" {
		aux = int32(verifNondetInt("qe", -4, 4))
	}
	verifHavoc("d1", &d1)
	verifHavoc("d2", &d2)
	verifFreezeDecimal(&x, "operand")
	verifFreezeDecimal(&y, "operand")
	verifFreezeContext(c, "context")
	n1, res1, err1 := verifApply(op, c, &d1, &x, &y, aux)
	n2, res2, err2 := verifApply(op, c, &d2, &x, &y, aux)
	verifCheckFrozen()
	verifObserveOut(op+".1", &d1, res1, err1)
	verifObserveOut(op+".2", &d2, res2, err2)
	tag := "C06." + op
	verifAssert(verifSameObservable(&d1, &d2), tag+".value")
	verifAssert(res1 == res2, tag+".flags")
	verifAssert((err1 != nil) == (err2 != nil), tag+".err")
	verifAssert(n1 == n2, tag+".count")
}

// VerifTrapsIndep: whenever the error is nil, destination and Condition are identical to what
// the same call returns with an empty trap set; the error contract itself (C03).
func VerifTrapsIndep() {
	c := verifCtx() // instance runs with traps=sym
	op := verifParamStr("op")
	var x, y, d1, d2 Decimal
	verifOperands(op, &x, &y)
	aux := int32(0)
	if op == "quantize" {
		aux = int32(verifNondetInt("qe", -4, 4))
	}
	c0 := *c
	c0.Traps = 0
	n1, res1, err1 := verifApply(op, c, &d1, &x, &y, aux)
	n2, res2, err2 := verifApply(op, &c0, &d2, &x, &y, aux)
	tag := "C03." + op
	verifObserveOut(op+".traps", &d1, res1, err1)
	verifAssert(verifErrSpec(c, res1, err1), tag+".err")
	verifAssert(verifErrSpec(&c0, res2, err2), tag+".err0")
	// results and flags are delivered regardless of the trap set (also alongside a trapped error)
	if res1&(SystemOverflow|SystemUnderflow) == 0 && res2&(SystemOverflow|SystemUnderflow) == 0 {
		verifAssert(verifSameObservable(&d1, &d2), tag+".value_indep")
	}
	verifAssert(res1 == res2, tag+".flags_indep")
	verifAssert(n1 == n2, tag+".count_indep")
	if err1 != nil {
		verifCover("traps.trapped")
	}
}
