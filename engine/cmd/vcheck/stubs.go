package main

func cmdRun(args []string) int      { return 2 }
func cmdReplay(args []string) int   { return 2 }
func cmdSelftest(args []string) int { return 0 }
