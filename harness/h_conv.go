//go:build verif

package apd

import "math"

// VerifInt64: Decimal.Int64 returns v exactly iff the decimal is an integer in
// [MinInt64, MaxInt64], an error otherwise, never a wrapped value (C17).
func VerifInt64() {
	var x Decimal
	K := verifParamInt("K")
	W := verifParamInt("W")
	ze := verifParamIntOr("zeroexp", 0)
	if ze != 0 {
		// a zero with one given (large) exponent: the scaling step runs on concrete values
		x.Coeff.SetInt64(0)
		x.Exponent = int32(ze)
	} else {
		verifNondetCoeff("xc", &x.Coeff, int(K))
		x.Exponent = int32(verifConcretize(verifNondetInt("xe", -W, W)))
	}
	x.Negative = verifNondetBool("xneg")
	x.Form = Finite
	if ze == 0 && x.Coeff.Sign() == 0 && x.Exponent > 24 {
		// the x10 loop runs Exponent times for a zero coefficient (up to 100000): outside the bound
		verifAssume(false)
	}
	verifFreezeDecimal(&x, "operand")
	v, err := x.Int64()
	verifCheckFrozen()
	verifObserveBool("err", err != nil)
	// exact integer value of x, if it is one
	var val, t, r BigInt
	isInt := true
	if x.Exponent >= 0 {
		verifPow10(&t, int64(x.Exponent))
		val.Mul(&x.Coeff, &t)
	} else {
		verifPow10(&t, -int64(x.Exponent))
		val.QuoRem(&x.Coeff, &t, &r)
		isInt = r.Sign() == 0
	}
	if x.Negative {
		val.Neg(&val)
	}
	var lo, hi BigInt
	lo.SetInt64(math.MinInt64)
	hi.SetInt64(math.MaxInt64)
	inRange := verifAnd(lo.Cmp(&val) <= 0, val.Cmp(&hi) <= 0)
	if err != nil {
		verifAssert(verifNot(verifAnd(isInt, inRange)), "C17.int64.spurious_error")
		verifCover("int64.error")
		return
	}
	verifObserveInt("v", v)
	verifAssert(verifAnd(isInt, inRange), "C17.int64.must_error")
	var got BigInt
	got.SetInt64(v)
	verifAssert(got.Cmp(&val) == 0, "C17.int64.value")
	verifCover("int64.ok")
}

// VerifModf: integ + frac == d exactly, integ an integer with exponent >= 0, |frac| < 1,
// both carrying d's sign, for either output nil (param outs = both|integ|frac) (C17).
func VerifModf() {
	outs := verifParamStr("outs")
	var x, integ, frac Decimal
	verifFinite("x", &x)
	verifHavoc("i0", &integ)
	verifHavoc("f0", &frac)
	verifFreezeDecimal(&x, "operand")
	var ip, fp *Decimal
	if outs != "frac" {
		ip = &integ
	}
	if outs != "integ" {
		fp = &frac
	}
	x.Modf(ip, fp)
	verifCheckFrozen()
	// cross-scale everything to the exponent min(x.Exponent, 0)
	if ip != nil {
		verifObserveInt("iexp", int64(integ.Exponent))
		verifObserveBig("icoeff", &integ.Coeff)
		verifAssert(integ.Form == Finite, "C17.modf.iform")
		verifAssert(integ.Exponent >= 0, "C17.modf.iexp")
		verifAssert(verifOr(integ.Coeff.Sign() == 0, integ.Negative == x.Negative), "C17.modf.isign")
		verifAssert(integ.Negative == x.Negative, "C17.modf.isign_strict")
	}
	if fp != nil {
		verifObserveInt("fexp", int64(frac.Exponent))
		verifObserveBig("fcoeff", &frac.Coeff)
		verifAssert(frac.Form == Finite, "C17.modf.fform")
		verifAssert(frac.Negative == x.Negative, "C17.modf.fsign")
		// |frac| < 1
		if frac.Exponent >= 0 {
			verifAssert(frac.Coeff.Sign() == 0, "C17.modf.flt1")
		} else {
			var one BigInt
			verifPow10(&one, -int64(frac.Exponent))
			verifAssert(frac.Coeff.Cmp(&one) < 0, "C17.modf.flt1")
		}
	}
	e := int64(x.Exponent)
	if e > 0 {
		e = 0
	}
	scale := func(d *Decimal, out *BigInt) bool {
		k := verifConcretize(int64(d.Exponent) - e)
		if k < 0 {
			return false
		}
		var t BigInt
		verifPow10(&t, k)
		out.Mul(&d.Coeff, &t)
		return true
	}
	var xs, is, fs, sum BigInt
	scale(&x, &xs)
	ok := true
	if ip != nil && fp != nil {
		ok = scale(&integ, &is) && scale(&frac, &fs)
		if ok {
			sum.Add(&is, &fs)
			verifAssert(sum.Cmp(&xs) == 0, "C17.modf.sum")
		} else {
			verifAssert(false, "C17.modf.sum")
		}
	} else if ip != nil {
		// integ alone: integ <= |x| < integ + 1
		if scale(&integ, &is) {
			var one, up BigInt
			verifPow10(&one, -e)
			up.Add(&is, &one)
			verifAssert(verifAnd(is.Cmp(&xs) <= 0, xs.Cmp(&up) < 0), "C17.modf.integ_only")
		} else {
			verifAssert(false, "C17.modf.integ_only")
		}
	} else if fp != nil {
		// frac alone: |x| - frac is a non-negative integer
		if scale(&frac, &fs) {
			var one, diff, r BigInt
			verifPow10(&one, -e)
			diff.Sub(&xs, &fs)
			r.Rem(&diff, &one)
			verifAssert(verifAnd(diff.Sign() >= 0, r.Sign() == 0), "C17.modf.frac_only")
		} else {
			verifAssert(false, "C17.modf.frac_only")
		}
	}
}

// VerifConstruct: SetInt64 / New / SetFinite / NewWithBigInt represent their arguments exactly (C17).
func VerifConstruct() {
	v := verifNondetInt("v", math.MinInt64, math.MaxInt64)
	e := int32(verifNondetInt("e", MinExponent, MaxExponent))
	var want BigInt
	want.SetInt64(v)
	neg := want.Sign() < 0
	want.Abs(&want)
	check := func(d *Decimal, exp int32, tag string) {
		verifAssert(verifAnd(d.Form == Finite, verifAnd(d.Exponent == exp, verifAnd(d.Coeff.Cmp(&want) == 0, d.Negative == neg))), "C17.construct."+tag)
	}
	var a Decimal
	verifHavoc("a0", &a)
	a.SetInt64(v)
	check(&a, 0, "setint64")
	var b Decimal
	verifHavoc("b0", &b)
	b.SetFinite(v, e)
	check(&b, e, "setfinite")
	check(New(v, e), e, "new")
	var big BigInt
	verifNondetBig("big", &big, "-99999999999999999999999999", "99999999999999999999999999")
	verifFreezeBig(&big, "operand")
	n := NewWithBigInt(&big, e)
	verifCheckFrozen()
	var ab BigInt
	ab.Abs(&big)
	verifAssert(verifAnd(n.Form == Finite, verifAnd(n.Exponent == e, verifAnd(n.Coeff.Cmp(&ab) == 0, n.Negative == (big.Sign() < 0)))), "C17.construct.newwithbigint")
}
