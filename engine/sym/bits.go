package sym

import (
	"fmt"
	"math/big"
	mbits "math/bits"
	"strings"

	"golang.org/x/tools/go/ssa"
)

// bitsStub gives math/bits functions their documented bit-vector meaning.
func bitsStub(name string) interceptFn {
	bv64 := func(v Value) *Term { return toBV(v.(IntV), 64, false) }
	switch name {
	case "math/bits.Add64":
		return func(ex *Exec, a []Value, c *ssa.CallCommon) Value {
			x, y, ci := BVZeroExt(1, bv64(a[0])), BVZeroExt(1, bv64(a[1])), BVZeroExt(1, bv64(a[2]))
			s := BVBin("bvadd", BVBin("bvadd", x, y), ci)
			return TupleV{bvResult(BVExtract(63, 0, s)), bvResult(BVZeroExt(63, BVExtract(64, 64, s)))}
		}
	case "math/bits.Sub64":
		return func(ex *Exec, a []Value, c *ssa.CallCommon) Value {
			x, y, bi := BVZeroExt(1, bv64(a[0])), BVZeroExt(1, bv64(a[1])), BVZeroExt(1, bv64(a[2]))
			s := BVBin("bvsub", BVBin("bvsub", x, y), bi)
			return TupleV{bvResult(BVExtract(63, 0, s)), bvResult(BVZeroExt(63, BVExtract(64, 64, s)))}
		}
	case "math/bits.Mul64":
		return func(ex *Exec, a []Value, c *ssa.CallCommon) Value {
			x, y := a[0].(IntV), a[1].(IntV)
			if !x.IsBV() && !y.IsBV() && !(x.IsConst() && y.IsConst()) {
				// Int-encoded operands (Level A): the exact product (linear when one factor is a
				// constant, otherwise the product abstraction with its exact fallback), split at 2^64
				p := ex.bigMul(x, y)
				two64 := new(big.Int).Lsh(bigOneI, 64)
				var hlo, hhi *big.Int
				if lo, hi := ex.bounds(p); lo != nil && hi != nil && lo.Sign() >= 0 {
					hlo, hhi = new(big.Int).Div(lo, two64), new(big.Int).Div(hi, two64)
				} else {
					hlo, hhi = big.NewInt(0), bvMask(64)
				}
				return TupleV{IntV{T: FDiv(p.T, IntConst(two64)), Lo: hlo, Hi: hhi},
					IntV{T: FMod(p.T, IntConst(two64)), Lo: big.NewInt(0), Hi: bvMask(64)}}
			}
			hi, lo := ex.mul64(bv64(a[0]), bv64(a[1]))
			return TupleV{bvResult(hi), bvResult(lo)}
		}
	}
	width := func(suffix string) int {
		switch suffix {
		case "8":
			return 8
		case "16":
			return 16
		case "32":
			return 32
		}
		return 64 // "", "64": uint is 64 bits on the verified platform
	}
	// bitLen forks on the bit length of an unsigned value (Int- or BV-encoded).
	bitLen := func(ex *Exec, v IntV, w int) int64 {
		if v.IsConst() {
			return int64(new(big.Int).And(v.Const(), bvMask(w)).BitLen())
		}
		for n := 0; n < w; n++ {
			lim := new(big.Int).Lsh(bigOneI, uint(n))
			var cond *Term
			if v.IsBV() {
				cond = BVCmp("bvult", toBV(v, w, false), BVConst(w, lim))
			} else {
				if v.Lo != nil && v.Lo.Cmp(lim) >= 0 {
					continue
				}
				if v.Hi != nil && v.Hi.Cmp(lim) < 0 {
					return int64(n)
				}
				cond = Lt(v.T, IntConst(lim))
			}
			if ex.decide(cond) {
				return int64(n)
			}
		}
		return int64(w)
	}
	trailingZeros := func(ex *Exec, v IntV, w int) int64 {
		if v.IsConst() {
			x := new(big.Int).And(v.Const(), bvMask(w))
			if x.Sign() == 0 {
				return int64(w)
			}
			return int64(x.TrailingZeroBits())
		}
		for n := 0; n < w; n++ {
			var cond *Term
			if v.IsBV() {
				cond = Eq(BVExtract(n, n, toBV(v, w, false)), BVConst(1, bigOneI))
			} else {
				cond = Not(Eq(FMod(v.T, IntConst(new(big.Int).Lsh(bigOneI, uint(n+1)))), IntConst64(0)))
			}
			if ex.decide(cond) {
				return int64(n)
			}
		}
		return int64(w)
	}
	constOnly := func(f func(x []uint64) []uint64) interceptFn {
		return func(ex *Exec, a []Value, c *ssa.CallCommon) Value {
			var xs []uint64
			for _, v := range a {
				iv := v.(IntV)
				if !iv.IsConst() {
					ex.unsupported("%s on a symbolic value", name)
				}
				xs = append(xs, new(big.Int).And(iv.Const(), bvMask(64)).Uint64())
			}
			r := f(xs)
			if len(r) == 1 {
				return ConstBig(new(big.Int).SetUint64(r[0]))
			}
			out := TupleV{}
			for _, x := range r {
				out = append(out, ConstBig(new(big.Int).SetUint64(x)))
			}
			return out
		}
	}
	short := strings.TrimPrefix(name, "math/bits.")
	for _, pre := range []string{"Len", "LeadingZeros", "TrailingZeros"} {
		if !strings.HasPrefix(short, pre) {
			continue
		}
		suffix := strings.TrimPrefix(short, pre)
		if suffix != "" && suffix != "8" && suffix != "16" && suffix != "32" && suffix != "64" {
			continue
		}
		w, pre := width(suffix), pre
		return func(ex *Exec, a []Value, c *ssa.CallCommon) Value {
			v := a[0].(IntV)
			switch pre {
			case "Len":
				return ConstInt(bitLen(ex, v, w))
			case "LeadingZeros":
				return ConstInt(int64(w) - bitLen(ex, v, w))
			}
			return ConstInt(trailingZeros(ex, v, w))
		}
	}
	switch short {
	case "OnesCount", "OnesCount64":
		return constOnly(func(x []uint64) []uint64 { return []uint64{uint64(mbits.OnesCount64(x[0]))} })
	case "OnesCount32":
		return constOnly(func(x []uint64) []uint64 { return []uint64{uint64(mbits.OnesCount32(uint32(x[0])))} })
	case "OnesCount16":
		return constOnly(func(x []uint64) []uint64 { return []uint64{uint64(mbits.OnesCount16(uint16(x[0])))} })
	case "OnesCount8":
		return constOnly(func(x []uint64) []uint64 { return []uint64{uint64(mbits.OnesCount8(uint8(x[0])))} })
	case "Reverse", "Reverse64":
		return constOnly(func(x []uint64) []uint64 { return []uint64{mbits.Reverse64(x[0])} })
	case "Reverse32":
		return constOnly(func(x []uint64) []uint64 { return []uint64{uint64(mbits.Reverse32(uint32(x[0])))} })
	case "ReverseBytes", "ReverseBytes64":
		return constOnly(func(x []uint64) []uint64 { return []uint64{mbits.ReverseBytes64(x[0])} })
	case "ReverseBytes32":
		return constOnly(func(x []uint64) []uint64 { return []uint64{uint64(mbits.ReverseBytes32(uint32(x[0])))} })
	case "RotateLeft", "RotateLeft64":
		return constOnly(func(x []uint64) []uint64 { return []uint64{mbits.RotateLeft64(x[0], int(int64(x[1])))} })
	case "RotateLeft32":
		return constOnly(func(x []uint64) []uint64 { return []uint64{uint64(mbits.RotateLeft32(uint32(x[0]), int(int64(x[1]))))} })
	case "Add", "Sub", "Mul":
		return bitsStub("math/bits." + short + "64")
	case "Add32":
		return constOnly(func(x []uint64) []uint64 {
			s, c := mbits.Add32(uint32(x[0]), uint32(x[1]), uint32(x[2]))
			return []uint64{uint64(s), uint64(c)}
		})
	case "Sub32":
		return constOnly(func(x []uint64) []uint64 {
			s, c := mbits.Sub32(uint32(x[0]), uint32(x[1]), uint32(x[2]))
			return []uint64{uint64(s), uint64(c)}
		})
	case "Mul32":
		return constOnly(func(x []uint64) []uint64 {
			h, l := mbits.Mul32(uint32(x[0]), uint32(x[1]))
			return []uint64{uint64(h), uint64(l)}
		})
	case "Div", "Div64":
		return func(ex *Exec, a []Value, c *ssa.CallCommon) Value {
			for _, v := range a {
				if !v.(IntV).IsConst() {
					ex.unsupported("%s on a symbolic value", name)
				}
			}
			u := func(i int) uint64 { return new(big.Int).And(a[i].(IntV).Const(), bvMask(64)).Uint64() }
			if u(2) == 0 {
				ex.panicEvent("integer divide by zero")
			}
			if u(2) <= u(0) {
				ex.panicEvent("integer overflow")
			}
			q, r := mbits.Div64(u(0), u(1), u(2))
			return TupleV{ConstBig(new(big.Int).SetUint64(q)), ConstBig(new(big.Int).SetUint64(r))}
		}
	}
	return nil
}

func bvResult(t *Term) IntV {
	if t.IsConst() {
		return ConstBig(t.Val)
	}
	return IntV{T: t}
}

// mul64 is the 64x64->128 product. Constant operands fold; otherwise the product is an
// uninterpreted pair (hi, lo) per operand pair with the axiom "the product is zero iff a
// factor is zero" (and the 0/1 identities) - the fast paths and the reference share it, so
// the solver decides sign/zero/overflow bookkeeping and never bit-blasts a multiplier.
func (ex *Exec) mul64(x, y *Term) (*Term, *Term) {
	if x.IsConst() && y.IsConst() {
		p := new(big.Int).Mul(x.Val, y.Val)
		return BVConst(64, new(big.Int).Rsh(p, 64)), BVConst(64, p)
	}
	if x.id > y.id {
		x, y = y, x
	}
	key := [2]*Term{x, y}
	if ex.mulMemo == nil {
		ex.mulMemo = map[[2]*Term][2]*Term{}
	}
	if r, ok := ex.mulMemo[key]; ok {
		return r[0], r[1]
	}
	ex.ufSeq++
	hi := Var(fmt.Sprintf("fv64!mulhi!%d", ex.ufSeq), Sort(64))
	lo := Var(fmt.Sprintf("fv64!mullo!%d", ex.ufSeq), Sort(64))
	z := BVConst(64, bigZero)
	one := BVConst(64, bigOneI)
	ex.assumeT(Eq(And(Eq(hi, z), Eq(lo, z)), Or(Eq(x, z), Eq(y, z))))
	ex.assumeT(Implies(Eq(x, one), And(Eq(hi, z), Eq(lo, y))))
	ex.assumeT(Implies(Eq(y, one), And(Eq(hi, z), Eq(lo, x))))
	ex.mulMemo[key] = [2]*Term{hi, lo}
	return hi, lo
}
