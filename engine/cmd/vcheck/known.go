package main

import (
	"encoding/json"
	"os"
)

// KnownFinding is one genuine defect of the pinned tree that is recorded rather than repaired.
type KnownFinding struct {
	ID       string            `json:"id"`
	Property []string          `json:"properties"`
	Status   string            `json:"status"` // open | fixed
	What     string            `json:"what"`
	Region   string            `json:"region"`
	Harness  string            `json:"harness"`
	Params   map[string]string `json:"params"`
	Inputs   map[string]string `json:"inputs"`
	Expect   []string          `json:"expect_failed"` // assertion ids the stored input must fail natively
}

type KnownFile struct {
	Findings []KnownFinding `json:"findings"`
	Fixed    []string       `json:"fixed"`
}

func loadKnown() *KnownFile {
	kf := &KnownFile{}
	b, err := os.ReadFile(verifDir + "/known_findings.json")
	if err != nil {
		return kf
	}
	if err := json.Unmarshal(b, kf); err != nil {
		panic("known_findings.json: " + err.Error())
	}
	return kf
}

func (k *KnownFile) openSet() map[string]bool {
	m := map[string]bool{}
	for _, f := range k.Findings {
		if f.Status == "open" {
			m[f.ID] = true
		}
	}
	return m
}
