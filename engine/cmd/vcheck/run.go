package main

import (
	"crypto/sha1"
	"encoding/json"
	"fmt"
	"os"
	"path/filepath"
	"runtime"
	"sort"
	"strconv"
	"strings"
	"sync"
	"time"

	"verif/engine/sym"
)

type Instance struct {
	Harness string
	Params  map[string]string
	LevelB  bool
	Weight  int // relative cost, heavier first
}

func (i Instance) Label() string {
	var ks []string
	for k := range i.Params {
		ks = append(ks, k)
	}
	sort.Strings(ks)
	var sb strings.Builder
	sb.WriteString(i.Harness)
	for _, k := range ks {
		fmt.Fprintf(&sb, " %s=%s", k, i.Params[k])
	}
	return sb.String()
}

type instOut struct {
	inst Instance
	hr   *sym.HarnessResult
	secs float64
}

func cmdRun(args []string) int {
	if len(args) < 1 {
		usage()
	}
	prop := args[0]
	tier := os.Getenv("VERIF_TIER")
	if tier == "" {
		tier = "quick"
	}
	for i := 1; i < len(args); i++ {
		if args[i] == "--tier" && i+1 < len(args) {
			tier = args[i+1]
			i++
		}
	}
	seed := int64(0)
	if s := os.Getenv("VERIF_SEED"); s != "" {
		seed, _ = strconv.ParseInt(s, 10, 64)
	}
	def, ok := checkDefs[prop]
	if !ok {
		fmt.Println("unknown property", prop)
		return 2
	}
	t0 := time.Now()
	// memory watchdog: a run that would exhaust memory (path explosion on a mutated tree) ends
	// as UNDECIDED instead of being killed by the kernel
	go func() {
		limit := uint64(24) << 30
		if v := os.Getenv("VERIF_MEM_GB"); v != "" {
			if n, err := strconv.Atoi(v); err == nil {
				limit = uint64(n) << 30
			}
		}
		for {
			time.Sleep(2 * time.Second)
			var ms runtime.MemStats
			runtime.ReadMemStats(&ms)
			if ms.Sys > limit {
				fmt.Printf("UNDECIDED: memory budget of %d GiB exceeded (path explosion); no verdict\n", limit>>30)
				os.Exit(2)
			}
		}
	}()
	insts := def.Instances(tier)
	// wall-clock budget of one instance (instances share the solver pool, so an instance can live as
	// long as the whole run): twice the longest clean run of the tier
	if os.Getenv("VERIF_TIME_BUDGET") == "" {
		if tier == "thorough" {
			os.Setenv("VERIF_TIME_BUDGET", "7200")
		} else {
			os.Setenv("VERIF_TIME_BUDGET", "1500")
		}
	}
	sort.SliceStable(insts, func(i, j int) bool { return insts[i].Weight > insts[j].Weight })
	kf := loadKnown()

	scratch, err := os.MkdirTemp("", "vcheck-"+prop+"-")
	if err != nil {
		fmt.Println(err)
		return 2
	}
	defer os.RemoveAll(scratch)

	// Build the native replay binary concurrently with SSA loading.
	var native *Native
	var nativeErr error
	var nwg sync.WaitGroup
	nwg.Add(1)
	go func() { defer nwg.Done(); native, nativeErr = buildNative(scratch) }()

	progs := map[bool]*sym.Program{}
	for _, in := range insts {
		if _, ok := progs[in.LevelB]; !ok {
			p, _, err := sym.Load(repoDir, harnessDir, in.LevelB)
			if err != nil {
				fmt.Println("UNDECIDED: cannot load /repo with the harness overlay:", err)
				writeEvidenceFailure(prop, tier, seed, def, "load error: "+err.Error(), time.Since(t0).Seconds())
				return 2
			}
			progs[in.LevelB] = p
		}
	}
	loadSecs := time.Since(t0).Seconds()

	timeout := 5000
	if tier == "thorough" {
		timeout = 20000
	}
	totalWorkers := 16
	if s := os.Getenv("VERIF_WORKERS"); s != "" {
		totalWorkers, _ = strconv.Atoi(s)
	}
	ss := mkSolvers(totalWorkers, timeout)
	pool := sym.NewPool(ss)
	outs := make([]instOut, len(insts))
	var wg sync.WaitGroup
	enabled := enabledFn(def.Enable)
	pathModels := def.PathModels
	for idx := range insts {
		wg.Add(1)
		go func(idx int) {
			defer wg.Done()
			in := insts[idx]
			t1 := time.Now()
			opt := &sym.Options{Harness: in.Harness, Params: in.Params, Enabled: enabled, Known: kf.openSet(), PathModels: pathModels, Portfolio: true}
			if v, ok := in.Params["maxDigits"]; ok {
				opt.MaxDigits, _ = strconv.Atoi(v)
			}
			if v, ok := in.Params["feasTimeout"]; ok {
				opt.FeasTimeoutMs, _ = strconv.Atoi(v)
			}
			if v, ok := in.Params["maxInstr"]; ok {
				opt.MaxInstr, _ = strconv.ParseInt(v, 10, 64)
			}
			if v, ok := in.Params["maxDecisions"]; ok {
				opt.MaxDecisions, _ = strconv.Atoi(v)
			}
			hr := progs[in.LevelB].RunHarnessOn(opt, pool)
			outs[idx] = instOut{inst: in, hr: hr, secs: time.Since(t1).Seconds()}
			if os.Getenv("VERIF_VERBOSE") != "" {
				fmt.Printf("INSTANCE-DONE %.1fs paths=%d %s\n", time.Since(t1).Seconds(), hr.Paths, in.Label())
			}
		}(idx)
	}
	wg.Wait()
	pool.Close()
	closeSolvers(ss)
	nwg.Wait()
	if nativeErr != nil {
		fmt.Println("UNDECIDED:", nativeErr)
		writeEvidenceFailure(prop, tier, seed, def, nativeErr.Error(), time.Since(t0).Seconds())
		return 2
	}

	// ---- aggregate ----
	ev := newEvidence(prop, tier, seed, def)
	undecided := []string{}
	var cands []cand
	pathCases := []Case{}
	pathExpect := []map[string]string{}
	funcs := map[string]bool{}
	for _, o := range outs {
		hr := o.hr
		ev.addInstance(o)
		for f := range hr.Funcs {
			funcs[f] = true
		}
		for _, e := range hr.Errors {
			undecided = append(undecided, "engine error in "+o.inst.Label()+": "+e)
		}
		for _, e := range hr.Unwinds {
			undecided = append(undecided, "unwinding failure in "+o.inst.Label()+": "+e)
		}
		if hr.EndCounts["return"] == 0 && len(hr.Findings) == 0 && len(hr.Errors) == 0 {
			// vacuity guard: an instance whose assumptions exclude every input proves nothing
			undecided = append(undecided, "vacuous instance (no path reaches the end of the harness): "+o.inst.Label())
		}
		for id, n := range hr.AssertsUnk {
			undecided = append(undecided, fmt.Sprintf("solver unknown on %s x%d in %s", id, n, o.inst.Label()))
		}
		if hr.MaybeInf > 0 {
			ev.Notes = append(ev.Notes, fmt.Sprintf("%d paths kept although feasibility was undecided (%s)", hr.MaybeInf, o.inst.Label()))
		}
		seen := map[string]int{}
		for _, f := range hr.Findings {
			if seen[f.ID] >= 3 {
				continue
			}
			seen[f.ID]++
			cands = append(cands, cand{f: f, inst: o.inst})
		}
		limit := def.PathModelSample
		if limit == 0 {
			limit = 150
		}
		step := 1
		if len(hr.PathModels) > limit {
			step = len(hr.PathModels) / limit
		}
		for i := int(seed % int64(step)); i < len(hr.PathModels); i += step {
			pm := hr.PathModels[i]
			pathCases = append(pathCases, Case{Harness: o.inst.Harness, Params: o.inst.Params, Inputs: pm.Inputs})
			pathExpect = append(pathExpect, pm.Observed)
		}
	}
	ev.Functions = sortedKeys(funcs)

	// ---- required cover labels ----
	covered := map[string]bool{}
	for _, o := range outs {
		for c := range o.hr.Covers {
			covered[c] = true
		}
	}
	for _, c := range def.RequireCovers {
		if !covered[c] {
			undecided = append(undecided, "reachability witness not reached: "+c)
		}
	}

	// ---- per-path translation validation ----
	mismatches := 0
	if len(pathCases) > 0 {
		rs, err := native.Run(pathCases, 20000)
		if err != nil {
			undecided = append(undecided, "native path validation failed to run: "+err.Error())
		} else {
			for i, r := range rs {
				ok := !r.AssumeOut && r.Panic == "" && !r.Hang
				for k, v := range pathExpect[i] {
					if r.Observed[k] != v {
						ok = false
					}
				}
				if ok {
					ev.TracesValidated++
				} else {
					mismatches++
					if mismatches <= 5 {
						b, _ := json.Marshal(map[string]interface{}{"case": pathCases[i], "predicted": pathExpect[i], "native": r})
						fmt.Println("ENCODING-MISMATCH (path validation):", string(b))
					}
				}
			}
		}
	}
	if mismatches > 0 {
		undecided = append(undecided, fmt.Sprintf("%d per-path validation mismatches between the encoding and the native run", mismatches))
	}

	// ---- replay counterexamples natively ----
	violations := 0
	if len(cands) > 0 {
		cases := make([]Case, len(cands))
		for i, c := range cands {
			cases[i] = Case{Harness: c.inst.Harness, Params: c.inst.Params, Inputs: c.f.Inputs}
		}
		rs, err := native.Run(cases, 15000)
		if err != nil {
			undecided = append(undecided, "native replay failed to run: "+err.Error())
		} else {
			reported := map[string]bool{}
			for i, r := range rs {
				c := cands[i]
				confirmed := false
				switch c.f.Kind {
				case "assert", "write":
					confirmed = contains(r.Failed, c.f.ID)
				case "panic":
					confirmed = r.Panic != "" || r.Hang
				case "hang":
					confirmed = r.Hang
				}
				if r.Hang && strings.HasPrefix(c.f.ID, "C04") {
					confirmed = true
				}
				if !confirmed {
					b, _ := json.Marshal(map[string]interface{}{"finding": c.f, "params": c.inst.Params, "native": r})
					fmt.Println("ENCODING-MISMATCH (counterexample did not reproduce natively):", string(b))
					undecided = append(undecided, "counterexample for "+c.f.ID+" did not reproduce natively")
					continue
				}
				if k := knownMatch(kf, r.Known); k != "" {
					// inside a region that is listed as an open known finding (should be excluded symbolically)
					continue
				}
				key := c.f.ID
				if reported[key] {
					continue
				}
				reported[key] = true
				violations++
				path := writeReplay(prop, cases[i], c.f)
				fmt.Printf("VIOLATION property=%s replay=%s\n", prop, path)
				fmt.Printf("  assertion=%s harness=%s params=%v inputs=%v msg=%s where=%s\n", c.f.ID, c.inst.Harness, c.inst.Params, c.f.Inputs, c.f.Msg, c.f.Where)
				ev.ViolationSamples = append(ev.ViolationSamples, map[string]interface{}{"assertion": c.f.ID, "case": cases[i], "native_failed": r.Failed, "native_panic": r.Panic})
			}
		}
	}

	// ---- listed known findings: re-confirm natively ----
	for _, f := range kf.Findings {
		if f.Status != "open" || !contains(f.Property, prop) {
			continue
		}
		rs, err := native.Run([]Case{{Harness: f.Harness, Params: f.Params, Inputs: f.Inputs}}, 15000)
		if err != nil {
			undecided = append(undecided, "known finding replay failed to run: "+err.Error())
			continue
		}
		still := true
		for _, e := range f.Expect {
			if e == "HANG" {
				still = still && rs[0].Hang
			} else if e == "PANIC" {
				still = still && rs[0].Panic != ""
			} else {
				still = still && contains(rs[0].Failed, e)
			}
		}
		if still {
			fmt.Printf("KNOWN-FINDING: property=%s %s: %s\n", prop, f.ID, f.What)
			ev.KnownReproduced = append(ev.KnownReproduced, f.ID)
		} else {
			ev.Notes = append(ev.Notes, "listed known finding no longer reproduces: "+f.ID)
		}
	}

	ev.Violations = violations
	ev.Undecided = undecided
	ev.LoadSecs = loadSecs
	ev.finish(time.Since(t0).Seconds())
	ev.write()

	for _, u := range undecided {
		fmt.Println("UNDECIDED:", u)
	}
	fmt.Printf("property=%s tier=%s instances=%d paths=%d queries=%d (unsat=%d sat=%d unknown=%d) solver_time=%.1fs validated_paths=%d wall=%.1fs\n",
		prop, tier, len(insts), ev.States, sym.GStats.Queries, sym.GStats.UnsatN, sym.GStats.SatN, sym.GStats.UnknownN, float64(sym.GStats.NanosInSolver)/1e9, ev.TracesValidated, time.Since(t0).Seconds())
	if violations > 0 {
		return 1
	}
	if len(undecided) > 0 {
		return 2
	}
	return 0
}

type cand struct {
	f    sym.Finding
	inst Instance
}

func knownMatch(kf *KnownFile, regions []string) string {
	open := kf.openSet()
	for _, r := range regions {
		if open[r] {
			return r
		}
	}
	return ""
}

func writeReplay(prop string, c Case, f sym.Finding) string {
	dir := filepath.Join(verifDir, "replays", prop)
	os.MkdirAll(dir, 0o755)
	b, _ := json.MarshalIndent(map[string]interface{}{"property": prop, "assertion": f.ID, "kind": f.Kind, "msg": f.Msg, "case": c}, "", " ")
	h := sha1.Sum(b)
	path := filepath.Join(dir, fmt.Sprintf("%s-%x.json", strings.ReplaceAll(f.ID, "/", "_"), h[:6]))
	os.WriteFile(path, b, 0o644)
	return path
}

func sortedKeys(m map[string]bool) []string {
	var ks []string
	for k := range m {
		ks = append(ks, k)
	}
	sort.Strings(ks)
	return ks
}

// cmdReplay re-runs a stored counterexample natively against /repo's working tree.
func cmdReplay(args []string) int {
	if len(args) < 1 {
		usage()
	}
	b, err := os.ReadFile(args[0])
	if err != nil {
		fmt.Println(err)
		return 2
	}
	var rep struct {
		Property  string `json:"property"`
		Assertion string `json:"assertion"`
		Kind      string `json:"kind"`
		Case      Case   `json:"case"`
	}
	if err := json.Unmarshal(b, &rep); err != nil {
		fmt.Println(err)
		return 2
	}
	scratch, _ := os.MkdirTemp("", "vcheck-replay-")
	defer os.RemoveAll(scratch)
	native, err := buildNative(scratch)
	if err != nil {
		fmt.Println(err)
		return 2
	}
	rs, err := native.Run([]Case{rep.Case}, 20000)
	if err != nil {
		fmt.Println(err)
		return 2
	}
	out, _ := json.MarshalIndent(rs[0], "", " ")
	fmt.Println(string(out))
	failed := contains(rs[0].Failed, rep.Assertion) || (rep.Kind == "panic" && (rs[0].Panic != "" || rs[0].Hang))
	if failed {
		fmt.Printf("VIOLATION property=%s replay=%s\n", rep.Property, args[0])
		return 1
	}
	fmt.Println("replay passes on the current tree")
	return 0
}
