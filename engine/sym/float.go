package sym

import (
	"go/token"
	"go/types"
	"math"
	"math/big"
)

// Symbolic float64 values WITHOUT a floating-point theory: a finite, normal, non-zero float64
// is the exact dyadic rational (-1)^Neg * M * 2^K with a symbolic integer significand
// 2^52 <= M < 2^53 and a concrete exponent K (paths fork on the binade). IEEE-754
// round-to-nearest-even conversion, multiplication and division by a CONSTANT float are
// expressed over exact integers (linear: one factor is always a constant); everything else
// (two symbolic factors, addition, subnormal or overflowing results, float32) ends the
// path as cut_float. strconv.ParseFloat on a symbolic digit string is its documented
// contract: "the nearest floating-point number rounded using IEEE754 unbiased rounding".

// SymFloatV is (-1)^Neg * M * 2^K, 2^52 <= M < 2^53.
type SymFloatV struct {
	Neg bool
	M   *Term
	K   int
}

// NearestV is the correctly rounded float64 of (-1)^Neg * Num/Den (Num >= 0 symbolic, Den > 0
// constant) that has not been given a significand yet.
type NearestV struct {
	Neg bool
	Num IntV
	Den *big.Int
}

var (
	two52 = new(big.Int).Lsh(bigOneI, 52)
	two53 = new(big.Int).Lsh(bigOneI, 53)
)

func pow2(n int) *big.Int { return new(big.Int).Lsh(bigOneI, uint(n)) }

// decomposeFloat returns f = (-1)^neg * m * 2^k with m < 2^53 for finite non-zero f.
func decomposeFloat(f float64) (neg bool, m *big.Int, k int, ok bool) {
	if f == 0 || math.IsInf(f, 0) || math.IsNaN(f) {
		return false, nil, 0, false
	}
	neg = math.Signbit(f)
	fr, e := math.Frexp(math.Abs(f)) // |f| = fr * 2^e, 0.5 <= fr < 1
	mi := int64(math.Ldexp(fr, 53))  // exact: fr has at most 53 significant bits
	return neg, big.NewInt(mi), e - 53, true
}

func signedZero(neg bool) FloatV {
	if neg {
		return FloatV{math.Copysign(0, -1)}
	}
	return FloatV{0}
}

// bitLen forks (by bisection) on the bit length of a positive value.
func (ex *Exec) bitLen(a IntV) int {
	if a.IsConst() {
		return a.Const().BitLen()
	}
	lo, hi := ex.bounds(a)
	loN, hiN := 1, 4096
	if lo != nil && lo.Sign() > 0 {
		loN = lo.BitLen()
	}
	if hi != nil && hi.Sign() > 0 && hi.BitLen() < hiN {
		hiN = hi.BitLen()
	} else if hi == nil {
		ex.stop("cut_float", "float conversion of an unbounded integer")
	}
	for loN < hiN {
		mid := (loN + hiN) / 2
		p := pow2(mid) // a < 2^mid  <=>  bitlen <= mid
		if ex.decide(Lt(a.T, IntConst(p))) {
			hiN = mid
			ex.refine(a.T, nil, new(big.Int).Sub(p, bigOneI))
		} else {
			loN = mid + 1
			ex.refine(a.T, p, nil)
		}
	}
	return loN
}

func (ex *Exec) checkNormal(k int) {
	if k+52 < -1022 || k+52 > 1023 {
		ex.stop("cut_float", "float64 result outside the normal range")
	}
}

func isEven(m *Term) *Term { return Eq(FMod(m, IntConst64(2)), IntConst64(0)) }

// roundDyadic is IEEE round-to-nearest-even of the exact value a * 2^k (a >= 0) to float64.
func (ex *Exec) roundDyadic(neg bool, a IntV, k int) Value {
	lo, hi := ex.bounds(a)
	a = IntV{T: a.T, Lo: lo, Hi: hi}
	if a.IsConst() {
		f, _ := new(big.Float).SetMantExp(new(big.Float).SetInt(a.Const()), k).Float64()
		if neg {
			f = -f
		}
		return FloatV{f}
	}
	if lo == nil || lo.Sign() <= 0 {
		if ex.decide(Eq(a.T, IntConst64(0))) {
			return signedZero(neg)
		}
		ex.refine(a.T, bigOneI, nil)
		a.Lo = bigOneI
	}
	l := ex.bitLen(a)
	if l <= 53 {
		ex.checkNormal(k - (53 - l))
		return SymFloatV{Neg: neg, M: Mul(a.T, IntConst(pow2(53-l))), K: k - (53 - l)}
	}
	s := l - 53
	q := ex.freshVar("fq", SInt)
	r := ex.freshVar("fr", SInt)
	ex.assumeT(Eq(a.T, Add(Mul(q, IntConst(pow2(s))), r)))
	ex.assumeT(Le(IntConst64(0), r))
	ex.assumeT(Lt(r, IntConst(pow2(s))))
	ex.assumeT(Le(IntConst(two52), q))
	ex.assumeT(Lt(q, IntConst(two53)))
	half := IntConst(pow2(s - 1))
	up := Or(Lt(half, r), And(Eq(r, half), Not(isEven(q))))
	// (a name for the rounded significand keeps later constraints small)
	m := ex.freshVar("fmr", SInt)
	ex.assumeT(Eq(m, Add(q, Ite(up, IntConst64(1), IntConst64(0)))))
	ex.assumeT(Le(IntConst(two52), m))
	ex.assumeT(Le(m, IntConst(two53)))
	kk := k + s
	if ex.decide(Eq(m, IntConst(two53))) {
		m = IntConst(two52)
		kk++
	}
	ex.checkNormal(kk)
	ex.refine(m, two52, new(big.Int).Sub(two53, bigOneI))
	return SymFloatV{Neg: neg, M: m, K: kk}
}

// nearestCond: "(m, k) is the float64 nearest (ties to even) to num/den", over exact integers.
func nearestCond(num *Term, den *big.Int, m *Term, k int) *Term {
	// compare X = num * 2^a with Y = m * den * 2^b; one unit in the last place is U = den * 2^b
	x, u := num, new(big.Int).Set(den)
	if k < 0 {
		x = Mul(num, IntConst(pow2(-k)))
	} else {
		u.Lsh(u, uint(k))
	}
	y := Mul(m, IntConst(u))
	d := Sub(x, y)
	uT := IntConst(u)
	two, four := IntConst64(2), IntConst64(4)
	up := And(Le(IntConst64(0), d), Or(Lt(Mul(two, d), uT), And(Eq(Mul(two, d), uT), isEven(m))))
	nd := Neg(d)
	// below a power of two the spacing halves: the lower neighbour of 2^52 * 2^k is U/2 away
	dnPow := Le(Mul(four, nd), uT)
	dnGen := Or(Lt(Mul(two, nd), uT), And(Eq(Mul(two, nd), uT), isEven(m)))
	dn := And(Lt(d, IntConst64(0)), Ite(Eq(m, IntConst(two52)), dnPow, dnGen))
	return Or(up, dn)
}

// materialize gives a NearestV its significand: fork on the binade of Num/Den, introduce the
// significand as a fresh variable constrained by the rounding contract.
func (ex *Exec) materialize(n NearestV) Value {
	lo, hi := ex.bounds(n.Num)
	num := IntV{T: n.Num.T, Lo: lo, Hi: hi}
	if num.IsConst() {
		r := new(big.Rat).SetFrac(num.Const(), n.Den)
		f, _ := r.Float64()
		if neg := n.Neg; neg {
			f = -f
		}
		if num.Const().Sign() == 0 {
			return signedZero(n.Neg)
		}
		return FloatV{f}
	}
	if lo == nil || lo.Sign() <= 0 {
		if ex.decide(Eq(num.T, IntConst64(0))) {
			return signedZero(n.Neg)
		}
		ex.refine(num.T, bigOneI, nil)
		lo = bigOneI
	}
	if hi == nil {
		ex.stop("cut_float", "ParseFloat of an unbounded value")
	}
	// j = floor(log2(num/den)): num/den < 2^j  <=>  num < den*2^j (j >= 0), num*2^-j < den (j < 0)
	below := func(j int) *Term {
		if j >= 0 {
			return Lt(num.T, IntConst(new(big.Int).Lsh(n.Den, uint(j))))
		}
		return Lt(Mul(num.T, IntConst(pow2(-j))), IntConst(n.Den))
	}
	flog := func(v *big.Int) int { // floor(log2(v/den)) for v > 0
		j := v.BitLen() - n.Den.BitLen()
		// v/den in [2^(j-1), 2^(j+1))
		var l, r big.Int
		if j >= 0 {
			l.Set(v)
			r.Lsh(n.Den, uint(j))
		} else {
			l.Lsh(v, uint(-j))
			r.Set(n.Den)
		}
		if l.Cmp(&r) < 0 {
			return j - 1
		}
		return j
	}
	loJ, hiJ := flog(lo), flog(hi)
	for loJ < hiJ {
		mid := (loJ + hiJ + 1) / 2 // value < 2^mid  <=>  j < mid
		if ex.decide(below(mid)) {
			hiJ = mid - 1
		} else {
			loJ = mid
		}
	}
	k := loJ - 52
	ex.checkNormal(k + 1)
	ex.checkNormal(k)
	m := ex.freshVar("fm", SInt)
	ex.assumeT(Le(IntConst(two52), m))
	ex.assumeT(Le(m, IntConst(two53)))
	ex.assumeT(nearestCond(num.T, n.Den, m, k))
	if ex.decide(Eq(m, IntConst(two53))) {
		return SymFloatV{Neg: n.Neg, M: IntConst(two52), K: k + 1}
	}
	ex.refine(m, two52, new(big.Int).Sub(two53, bigOneI))
	return SymFloatV{Neg: n.Neg, M: m, K: k}
}

func isSymFloat(v Value) bool {
	switch v.(type) {
	case SymFloatV, NearestV:
		return true
	}
	return false
}

// asSym returns the significand form of a symbolic float (nil, false for zero or concrete).
func (ex *Exec) asSym(v Value) Value {
	if n, ok := v.(NearestV); ok {
		return ex.materialize(n)
	}
	return v
}

// intToFloat is the conversion float64(x) of an integer value.
func (ex *Exec) intToFloat(a IntV, signed bool) Value {
	t := a.T
	var lo, hi *big.Int
	if a.IsBV() {
		if signed {
			ex.stop("cut_float", "float conversion of a bit-vector encoded signed integer")
		}
		t = BV2Nat(a.T)
		lo, hi = big.NewInt(0), bvMask(int(a.T.Sort))
	} else {
		lo, hi = ex.bounds(a)
	}
	if lo == nil || hi == nil {
		ex.stop("cut_float", "float conversion of an unbounded integer")
	}
	neg := false
	if lo.Sign() < 0 {
		if hi.Sign() <= 0 || ex.decide(Lt(t, IntConst64(0))) {
			neg = true
			t = Neg(t)
			lo, hi = new(big.Int).Neg(hi), new(big.Int).Neg(lo)
			if lo.Sign() < 0 {
				lo = big.NewInt(0)
			}
		} else {
			lo = big.NewInt(0)
		}
	}
	return ex.roundDyadic(neg, IntV{T: t, Lo: lo, Hi: hi}, 0)
}

// signedTerm returns the value of a symbolic or concrete float scaled by 2^-mn as an Int term.
func floatScaled(neg bool, m *Term, k, mn int) *Term {
	t := Mul(m, IntConst(pow2(k-mn)))
	if neg {
		t = Neg(t)
	}
	return t
}

func (ex *Exec) floatBin(op token.Token, xv, yv Value) Value {
	xv, yv = ex.asSym(xv), ex.asSym(yv)
	xs, xsym := xv.(SymFloatV)
	ys, ysym := yv.(SymFloatV)
	if !xsym && !ysym {
		// both became concrete (zero or constant operands)
		return ex.binop(op, xv, yv, nil, nil)
	}
	type parts struct {
		neg  bool
		m    *Term
		k    int
		zero bool
	}
	get := func(v Value, sym bool, s SymFloatV) parts {
		if sym {
			return parts{neg: s.Neg, m: s.M, k: s.K}
		}
		f := v.(FloatV).F
		if f == 0 {
			return parts{neg: math.Signbit(f), zero: true}
		}
		neg, m, k, ok := decomposeFloat(f)
		if !ok {
			ex.stop("cut_float", "infinite or NaN float operand")
		}
		return parts{neg: neg, m: IntConst(m), k: k}
	}
	x, y := get(xv, xsym, xs), get(yv, ysym, ys)
	switch op {
	case token.MUL:
		if xsym && ysym {
			ex.stop("cut_float", "product of two symbolic floats")
		}
		if x.zero || y.zero {
			return signedZero(x.neg != y.neg)
		}
		prod := Mul(x.m, y.m)
		var lo, hi *big.Int
		cm, sm := y.m, x.m
		if !xsym {
			cm, sm = x.m, y.m
		}
		slo, shi := ex.bounds(IntV{T: sm})
		if slo == nil {
			slo = two52
		}
		if shi == nil {
			shi = new(big.Int).Sub(two53, bigOneI)
		}
		lo, hi = new(big.Int).Mul(slo, cm.Val), new(big.Int).Mul(shi, cm.Val)
		return ex.roundDyadic(x.neg != y.neg, IntV{T: prod, Lo: lo, Hi: hi}, x.k+y.k)
	case token.QUO:
		if ysym {
			ex.stop("cut_float", "division by a symbolic float")
		}
		if y.zero {
			ex.stop("cut_float", "float division by zero")
		}
		// q = floor(m * 2^56 / c) has at least 56 bits; a sticky bit stands for the remainder
		c := y.m.Val
		q := ex.freshVar("fdq", SInt)
		r := ex.freshVar("fdr", SInt)
		ex.assumeT(Eq(Mul(x.m, IntConst(pow2(56))), Add(Mul(q, IntConst(c)), r)))
		ex.assumeT(Le(IntConst64(0), r))
		ex.assumeT(Lt(r, IntConst(c)))
		qlo := new(big.Int).Quo(new(big.Int).Lsh(two52, 56), c)
		qhi := new(big.Int).Quo(new(big.Int).Lsh(two53, 56), c)
		ex.assumeT(Le(IntConst(qlo), q))
		ex.assumeT(Le(q, IntConst(qhi)))
		a := Add(Mul(IntConst64(2), q), Ite(Eq(r, IntConst64(0)), IntConst64(0), IntConst64(1)))
		alo := new(big.Int).Lsh(qlo, 1)
		ahi := new(big.Int).Add(new(big.Int).Lsh(qhi, 1), bigOneI)
		return ex.roundDyadic(x.neg != y.neg, IntV{T: a, Lo: alo, Hi: ahi}, x.k-y.k-57)
	case token.LSS, token.LEQ, token.GTR, token.GEQ, token.EQL, token.NEQ:
		if x.zero {
			x.m, x.k = IntConst64(0), y.k
		}
		if y.zero {
			y.m, y.k = IntConst64(0), x.k
		}
		mn := x.k
		if y.k < mn {
			mn = y.k
		}
		a, b := floatScaled(x.neg, x.m, x.k, mn), floatScaled(y.neg, y.m, y.k, mn)
		switch op {
		case token.LSS:
			return BoolV{Lt(a, b)}
		case token.LEQ:
			return BoolV{Le(a, b)}
		case token.GTR:
			return BoolV{Lt(b, a)}
		case token.GEQ:
			return BoolV{Le(b, a)}
		case token.EQL:
			return BoolV{Eq(a, b)}
		}
		return BoolV{Not(Eq(a, b))}
	}
	ex.stop("cut_float", "float operation "+op.String()+" on a symbolic float")
	return nil
}

func (ex *Exec) floatNeg(v Value) Value {
	switch a := v.(type) {
	case SymFloatV:
		a.Neg = !a.Neg
		return a
	case NearestV:
		a.Neg = !a.Neg
		return a
	}
	return v
}

// floatBits is math.Float64bits of a symbolic float as a non-negative Int term.
func (ex *Exec) floatBits(v Value) *Term {
	switch a := ex.asSym(v).(type) {
	case FloatV:
		return IntConst(new(big.Int).SetUint64(math.Float64bits(a.F)))
	case SymFloatV:
		t := Add(Sub(a.M, IntConst(two52)), IntConst(new(big.Int).Lsh(big.NewInt(int64(a.K+52+1023)), 52)))
		if a.Neg {
			t = Add(t, IntConst(pow2(63)))
		}
		return t
	}
	ex.stop("cut_float", "bits of an unsupported float value")
	return nil
}

// floatNearest: "f is the float64 nearest to (-1)^neg * c * 10^e" as a Bool term.
func (ex *Exec) floatNearest(fv Value, neg *Term, c IntV, e int64) *Term {
	fv = ex.asSym(fv)
	num, den := c.T, big.NewInt(1)
	p := new(big.Int).Exp(big.NewInt(10), big.NewInt(abs64(e)), nil)
	if e >= 0 {
		num = Mul(c.T, IntConst(p))
	} else {
		den = p
	}
	var fneg bool
	var cond *Term
	switch f := fv.(type) {
	case FloatV:
		if f.F == 0 {
			// within the normal range only an exact zero rounds to zero
			fneg, cond = math.Signbit(f.F), Eq(c.T, IntConst64(0))
			break
		}
		n, m, k, ok := decomposeFloat(f.F)
		if !ok || m.Cmp(two52) < 0 {
			return TFalse
		}
		fneg, cond = n, nearestCond(num, den, IntConst(m), k)
	case SymFloatV:
		fneg, cond = f.Neg, nearestCond(num, den, f.M, f.K)
	default:
		ex.stop("cut_float", "unsupported float value in the oracle")
	}
	sign := neg
	if !fneg {
		sign = Not(neg)
	}
	return And(sign, cond)
}

func abs64(x int64) int64 {
	if x < 0 {
		return -x
	}
	return x
}

// parseFloatSym models strconv.ParseFloat(s, 64) on a string whose structure is concrete and
// whose digits may be symbolic: value and acceptance of [+-]?digits[.digits][(e|E)[+-]?digits].
// Hexadecimal floats, underscores, "inf"/"nan" and malformed strings with symbolic bytes end the
// path (cut_float); concrete strings never get here.
func (ex *Exec) parseFloatSym(s StrV) (Value, bool) {
	bs := s.B
	i := 0
	neg := false
	isC := func(t *Term, ch byte) bool { return t.IsConst() && t.Val.IsInt64() && t.Val.Int64() == int64(ch) }
	if i < len(bs) && (isC(bs[i], '-') || isC(bs[i], '+')) {
		neg = isC(bs[i], '-')
		i++
	}
	num := IntV{T: IntConst64(0), Lo: big.NewInt(0), Hi: big.NewInt(0)}
	ten := big.NewInt(10)
	digits, frac := 0, 0
	seenDot := false
	push := func(d *Term, dlo, dhi int64, n int64) { // num = num*10^n + d
		p := new(big.Int).Exp(ten, big.NewInt(n), nil)
		num = IntV{T: Add(Mul(num.T, IntConst(p)), d),
			Lo: new(big.Int).Add(new(big.Int).Mul(num.Lo, p), big.NewInt(dlo)),
			Hi: new(big.Int).Add(new(big.Int).Mul(num.Hi, p), big.NewInt(dhi))}
	}
	for i < len(bs) {
		b := bs[i]
		if isC(b, '.') {
			if seenDot {
				return nil, false
			}
			seenDot = true
			i++
			continue
		}
		if isC(b, 'e') || isC(b, 'E') {
			break
		}
		if b.IsConst() {
			v := b.Val.Int64()
			if v < '0' || v > '9' {
				return nil, false
			}
			push(IntConst64(v-'0'), v-'0', v-'0', 1)
		} else {
			// a whole run of digits printed from one integer is that integer
			if o, ok := ex.digOrigin[b]; ok && o.pos == o.n-1 {
				j, pos, dots := i, o.n-1, 0
				okRun := true
				for pos >= 0 {
					if j < len(bs) && isC(bs[j], '.') && !seenDot && dots == 0 {
						dots++
						j++
						continue
					}
					if j >= len(bs) {
						okRun = false
						break
					}
					oo, ok2 := ex.digOrigin[bs[j]]
					if !ok2 || oo.x != o.x || oo.pos != pos {
						okRun = false
						break
					}
					j++
					pos--
				}
				if okRun {
					// digits after a dot inside the run
					if dots == 1 {
						// count the digits of the run that follow the dot
						after := 0
						seen := false
						for t := i; t < j; t++ {
							if isC(bs[t], '.') {
								seen = true
							} else if seen {
								after++
							}
						}
						seenDot = true
						frac += after
					} else if seenDot {
						frac += o.n
					}
					p := new(big.Int).Exp(ten, big.NewInt(int64(o.n)), nil)
					num = IntV{T: Add(Mul(num.T, IntConst(p)), o.x),
						Lo: new(big.Int).Mul(num.Lo, p),
						Hi: new(big.Int).Add(new(big.Int).Mul(num.Hi, p), new(big.Int).Sub(p, bigOneI))}
					digits += o.n
					i = j
					continue
				}
			}
			if !ex.decide(And(Le(IntConst64('0'), b), Le(b, IntConst64('9')))) {
				ex.stop("cut_float", "ParseFloat: symbolic non-digit byte")
			}
			push(Sub(b, IntConst64('0')), 0, 9, 1)
		}
		digits++
		if seenDot {
			frac++
		}
		i++
	}
	if digits == 0 {
		return nil, false
	}
	e10 := int64(0)
	if i < len(bs) {
		i++ // e | E
		eneg := false
		if i < len(bs) && (isC(bs[i], '-') || isC(bs[i], '+')) {
			eneg = isC(bs[i], '-')
			i++
		}
		if i >= len(bs) {
			return nil, false
		}
		for ; i < len(bs); i++ {
			if !bs[i].IsConst() {
				ex.stop("cut_float", "ParseFloat: symbolic exponent digit")
			}
			v := bs[i].Val.Int64()
			if v < '0' || v > '9' {
				return nil, false
			}
			if e10 < 1000000 {
				e10 = e10*10 + (v - '0')
			}
		}
		if eneg {
			e10 = -e10
		}
	}
	e10 -= int64(frac)
	if abs64(e10) > 400 {
		ex.stop("cut_float", "ParseFloat: decimal exponent outside the bound")
	}
	p := new(big.Int).Exp(ten, big.NewInt(abs64(e10)), nil)
	den := big.NewInt(1)
	if e10 >= 0 {
		num = IntV{T: Mul(num.T, IntConst(p)), Lo: new(big.Int).Mul(num.Lo, p), Hi: new(big.Int).Mul(num.Hi, p)}
	} else {
		den = p
	}
	return NearestV{Neg: neg, Num: num, Den: den}, true
}

type digOrigin struct {
	x      *Term
	pos, n int
}

// ltPow10 is the term "m * 2^k < 10^j".
func ltPow10(m *Term, k, j int) *Term {
	a, b := big.NewInt(1), big.NewInt(1)
	ten := big.NewInt(10)
	if k >= 0 {
		a.Lsh(a, uint(k))
	} else {
		b.Lsh(b, uint(-k))
	}
	if j >= 0 {
		b.Mul(b, new(big.Int).Exp(ten, big.NewInt(int64(j)), nil))
	} else {
		a.Mul(a, new(big.Int).Exp(ten, big.NewInt(int64(-j)), nil))
	}
	return Lt(Mul(m, IntConst(a)), IntConst(b))
}

// appendFloatSym models strconv.AppendFloat(dst, f, 'e'|'E', prec, 64) for a symbolic f by the
// documented contract of the result: with prec < 0 "the smallest number of digits necessary to
// represent the value uniquely", i.e. SOME decimal d.ddd x 10^X of 1..17 significant digits whose
// nearest float64 is f (minimality is not stated: every digit count that admits such a decimal
// is explored, a superset of the real outputs); with prec >= 0 the decimal of prec+1 digits
// nearest to f (ties to even). The digit string is symbolic, its length and exponent concrete.
func (ex *Exec) appendFloatSym(fv Value, fmtc byte, prec int) []*Term {
	f, ok := ex.asSym(fv).(SymFloatV)
	if !ok {
		ex.stop("cut_float", "AppendFloat on an unsupported float value")
	}
	if fmtc != 'e' && fmtc != 'E' {
		ex.stop("cut_float", "AppendFloat with a format other than e/E on a symbolic float")
	}
	if prec > 20 {
		ex.stop("cut_float", "AppendFloat precision beyond 20")
	}
	ex.checkNormal(f.K)
	mlo, mhi := ex.bounds(IntV{T: f.M})
	if mlo == nil {
		mlo = two52
	}
	if mhi == nil {
		mhi = new(big.Int).Sub(two53, bigOneI)
	}
	flog := func(m *big.Int) int { // floor(log10(m * 2^k))
		j := int(float64(m.BitLen()+f.K) * 0.30103)
		lt := func(j int) bool {
			return ltPow10(IntConst(m), f.K, j).IsTrue()
		}
		for lt(j) {
			j--
		}
		for !lt(j + 1) {
			j++
		}
		return j
	}
	loJ, hiJ := flog(mlo), flog(mhi)
	for loJ < hiJ {
		mid := (loJ + hiJ + 1) / 2
		if ex.decide(ltPow10(f.M, f.K, mid)) {
			hiJ = mid - 1
		} else {
			loJ = mid
		}
	}
	j := loJ
	n := prec + 1
	if prec < 0 {
		nv := ex.freshVar("fn", SInt)
		ex.assumeT(Le(IntConst64(1), nv))
		ex.assumeT(Le(nv, IntConst64(17)))
		n = int(ex.concretize(IntV{T: nv, Lo: big.NewInt(1), Hi: big.NewInt(17)}, "AppendFloat digit count").Int64())
	}
	bv := ex.freshVar("fbump", SInt)
	ex.assumeT(Le(IntConst64(0), bv))
	ex.assumeT(Le(bv, IntConst64(1)))
	bump := int(ex.concretize(IntV{T: bv, Lo: big.NewInt(0), Hi: big.NewInt(1)}, "AppendFloat carry").Int64())
	bigX := j + bump
	x := bigX - n + 1
	ten := big.NewInt(10)
	dlo := new(big.Int).Exp(ten, big.NewInt(int64(n-1)), nil)
	dhi := new(big.Int).Sub(new(big.Int).Exp(ten, big.NewInt(int64(n)), nil), bigOneI)
	d := ex.freshVar("fd", SInt)
	ex.assumeT(Le(IntConst(dlo), d))
	ex.assumeT(Le(d, IntConst(dhi)))
	px := new(big.Int).Exp(ten, big.NewInt(abs64(int64(x))), nil)
	if prec < 0 {
		num, den := d, big.NewInt(1)
		if x >= 0 {
			num = Mul(d, IntConst(px))
		} else {
			den = px
		}
		ex.assumeT(nearestCond(num, den, f.M, f.K))
		if n > 1 {
			ex.assumeT(Not(Eq(FMod(d, IntConst64(10)), IntConst64(0))))
		}
	} else {
		// scale both f = M*2^K and the decimal D*10^x to integers
		vs, ds := big.NewInt(1), big.NewInt(1)
		if f.K >= 0 {
			vs.Lsh(vs, uint(f.K))
		} else {
			ds.Lsh(ds, uint(-f.K))
		}
		if x >= 0 {
			ds.Mul(ds, px)
		} else {
			vs.Mul(vs, px)
		}
		vl := Mul(f.M, IntConst(vs))
		if bump == 0 {
			dl := Mul(d, IntConst(ds))
			u := IntConst(ds)
			diff := Sub(vl, dl)
			ad := Ite(Lt(diff, IntConst64(0)), Neg(diff), diff)
			two := IntConst64(2)
			ex.assumeT(Or(Lt(Mul(two, ad), u), And(Eq(Mul(two, ad), u), isEven(d))))
		} else {
			// the rounding carried into a new leading digit: D = 10^(n-1) in units ten times larger
			ex.assumeT(Eq(d, IntConst(dlo)))
			// 2V >= (2*10^n - 1) * 10^(x-1): scale by ten
			thr := new(big.Int).Sub(new(big.Int).Mul(big.NewInt(2), new(big.Int).Exp(ten, big.NewInt(int64(n)), nil)), bigOneI)
			ex.assumeT(Le(Mul(IntConst(thr), IntConst(ds)), Mul(IntConst64(20), vl)))
		}
	}
	digs := ex.bigDigits(IntV{T: d, Lo: dlo, Hi: dhi})
	var out []*Term
	if f.Neg {
		out = append(out, IntConst64('-'))
	}
	out = append(out, digs[0])
	if n > 1 {
		out = append(out, IntConst64('.'))
		out = append(out, digs[1:]...)
	}
	out = append(out, IntConst64(int64(fmtc)))
	ax := bigX
	if ax < 0 {
		out = append(out, IntConst64('-'))
		ax = -ax
	} else {
		out = append(out, IntConst64('+'))
	}
	es := big.NewInt(int64(ax)).String()
	if len(es) < 2 {
		es = "0" + es
	}
	return append(out, ConstStr(es).B...)
}

// floatIntPart splits |f| = t + frac with t = floor(|f|) as an Int term with bounds and the
// term "frac != 0".
func (ex *Exec) floatIntPart(f SymFloatV) (IntV, *Term) {
	switch {
	case f.K >= 0:
		if f.K > 1024 {
			ex.stop("cut_float", "integer part of a huge float")
		}
		p := pow2(f.K)
		return IntV{T: Mul(f.M, IntConst(p)), Lo: new(big.Int).Mul(two52, p), Hi: new(big.Int).Mul(new(big.Int).Sub(two53, bigOneI), p)}, TFalse
	case f.K <= -53:
		return IntV{T: IntConst64(0), Lo: big.NewInt(0), Hi: big.NewInt(0)}, TTrue
	}
	s := -f.K
	q := ex.freshVar("fiq", SInt)
	r := ex.freshVar("fir", SInt)
	ex.assumeT(Eq(f.M, Add(Mul(q, IntConst(pow2(s))), r)))
	ex.assumeT(Le(IntConst64(0), r))
	ex.assumeT(Lt(r, IntConst(pow2(s))))
	lo, hi := pow2(52-s), new(big.Int).Sub(pow2(53-s), bigOneI)
	ex.assumeT(Le(IntConst(lo), q))
	ex.assumeT(Le(q, IntConst(hi)))
	return IntV{T: q, Lo: lo, Hi: hi}, Not(Eq(r, IntConst64(0)))
}

// floatRoundInt is math.Trunc / math.Floor / math.Ceil of a symbolic float.
func (ex *Exec) floatRoundInt(name string, v Value) Value {
	f, ok := ex.asSym(v).(SymFloatV)
	if !ok {
		c := ex.asSym(v).(FloatV)
		switch name {
		case "math.Trunc":
			return FloatV{math.Trunc(c.F)}
		case "math.Floor":
			return FloatV{math.Floor(c.F)}
		}
		return FloatV{math.Ceil(c.F)}
	}
	if f.K >= 0 {
		return f
	}
	t, frac := ex.floatIntPart(f)
	away := (name == "math.Floor" && f.Neg) || (name == "math.Ceil" && !f.Neg)
	if away {
		one := big.NewInt(1)
		t = IntV{T: Add(t.T, Ite(frac, IntConst64(1), IntConst64(0))), Lo: t.Lo, Hi: new(big.Int).Add(t.Hi, one)}
	}
	return ex.roundDyadic(f.Neg, t, 0)
}

// floatToInt is the conversion of a symbolic float to an integer type (truncation).
func (ex *Exec) floatToInt(v Value, to types.Type) Value {
	f, ok := ex.asSym(v).(SymFloatV)
	if !ok {
		return ex.convert(ex.asSym(v), nil, to)
	}
	bits, signed, _ := intKind(to)
	t, _ := ex.floatIntPart(f)
	lim := pow2(bits)
	if signed {
		lim = pow2(bits - 1)
	}
	if t.Hi.Cmp(lim) >= 0 || (f.Neg && !signed) {
		ex.stop("cut_float", "float to integer conversion that may be out of range")
	}
	if f.Neg {
		return ex.mkInt(Neg(t.T), new(big.Int).Neg(t.Hi), new(big.Int).Neg(t.Lo), to)
	}
	return ex.mkInt(t.T, t.Lo, t.Hi, to)
}
