//go:build verif

package apd

// Grammar oracle for numeric strings (GDA "numeric-string", case-insensitive):
//   sign? ( digits ('.' digits?)? | '.' digits ) ( [eE] sign? digits )?
//   sign? inf | sign? infinity | sign? nan digits? | sign? snan digits?
// written branch-free over the (symbolic) bytes of a string of concrete length.

func verifIsDigit(b byte) bool { return verifAnd(b >= '0', b <= '9') }
func verifIsCh(b byte, lower byte) bool {
	return verifOr(b == lower, b == lower-32)
}

func verifAllDigits(s string, i, j int) bool {
	ok := true
	for k := i; k < j; k++ {
		ok = verifAnd(ok, verifIsDigit(s[k]))
	}
	return ok
}

func verifMatchWord(s string, i int, w string) bool {
	if len(s)-i != len(w) {
		return false
	}
	ok := true
	for k := 0; k < len(w); k++ {
		ok = verifAnd(ok, verifIsCh(s[i+k], w[k]))
	}
	return ok
}

// verifMantissa: s[i:j] is digits with at most one point and at least one digit.
func verifMantissa(s string, i, j int) bool {
	if j <= i {
		return false
	}
	ok := verifAllDigits(s, i, j) // no point
	for p := i; p < j; p++ {      // point at p
		if j-i >= 2 {
			ok = verifOr(ok, verifAnd(s[p] == '.', verifAnd(verifAllDigits(s, i, p), verifAllDigits(s, p+1, j))))
		}
	}
	return ok
}

// verifExponentPart: s[j:] is empty or [eE] sign? digits+
func verifExponentPart(s string, j int) bool {
	n := len(s)
	if j == n {
		return true
	}
	if n-j < 2 {
		return false
	}
	isE := verifIsCh(s[j], 'e')
	noSign := verifAllDigits(s, j+1, n)
	withSign := false
	if n-j >= 3 {
		withSign = verifAnd(verifOr(s[j+1] == '+', s[j+1] == '-'), verifAllDigits(s, j+2, n))
	}
	return verifAnd(isE, verifOr(noSign, withSign))
}

func verifGrammarFrom(s string, i int) bool {
	n := len(s)
	if i >= n {
		return false
	}
	ok := verifOr(verifMatchWord(s, i, "inf"), verifMatchWord(s, i, "infinity"))
	// nan / snan with optional digits
	if n-i >= 3 {
		head := verifAnd(verifIsCh(s[i], 'n'), verifAnd(verifIsCh(s[i+1], 'a'), verifIsCh(s[i+2], 'n')))
		ok = verifOr(ok, verifAnd(head, verifAllDigits(s, i+3, n)))
	}
	if n-i >= 4 {
		head := verifAnd(verifIsCh(s[i], 's'), verifAnd(verifIsCh(s[i+1], 'n'), verifAnd(verifIsCh(s[i+2], 'a'), verifIsCh(s[i+3], 'n'))))
		ok = verifOr(ok, verifAnd(head, verifAllDigits(s, i+4, n)))
	}
	// numeric: mantissa s[i:j], exponent part s[j:], whose exponent and adjusted exponent are
	// within the package limits
	for j := i + 1; j <= n; j++ {
		ok = verifOr(ok, verifAnd(verifMantissa(s, i, j), verifAnd(verifExponentPart(s, j), verifInLimits(s, i, j))))
	}
	return ok
}

// verifInLimits: for a numeric string with mantissa s[i:j] and exponent part s[j:] (both
// already known to be well-formed), exponent = exp - fractionDigits and
// adjusted = exponent + digits(coefficient) - 1 lie in [-100000, 100000].
func verifInLimits(s string, i, j int) bool {
	n := len(s)
	if n-i < 7 {
		return true // too short for an exponent of six digits: trivially within the limits
	}
	// exponent value (0 if absent); its digits start after [eE] and an optional sign
	var exp int64
	if j+1 < n {
		neg := s[j+1] == '-'
		var v int64
		for k := j + 1; k < n; k++ {
			isd := verifIsDigit(s[k])
			v = verifIteInt(isd, v*10+int64(s[k]-'0'), v)
		}
		exp = verifIteInt(neg, -v, v)
	}
	// fraction digits and the number of significant digits of the coefficient
	var f, nd int64
	seenPoint := false
	started := false // a non-zero digit was seen
	for k := i; k < j; k++ {
		isPoint := s[k] == '.'
		isd := verifIsDigit(s[k])
		f = verifIteInt(verifAnd(isd, seenPoint), f+1, f)
		started = verifOr(started, verifAnd(isd, s[k] != '0'))
		nd = verifIteInt(verifAnd(isd, started), nd+1, nd)
		seenPoint = verifOr(seenPoint, isPoint)
	}
	nd = verifIteInt(nd == 0, 1, nd)
	e := exp - f
	adj := e + nd - 1
	return verifAnd(verifAnd(e >= MinExponent, e <= MaxExponent), verifAnd(adj >= MinExponent, adj <= MaxExponent))
}

// verifGrammar: the whole string is in the numeric-string grammar.
func verifGrammar(s string) bool {
	if len(s) == 0 {
		return false
	}
	ok := verifGrammarFrom(s, 0)
	if len(s) >= 2 {
		ok = verifOr(ok, verifAnd(verifOr(s[0] == '+', s[0] == '-'), verifGrammarFrom(s, 1)))
	}
	return ok
}

// verifWellFormed: what every successfully parsed Decimal must satisfy (C04).
func verifWellFormed(d *Decimal) bool {
	ok := d.Form == Finite || d.Form == Infinite || d.Form == NaN || d.Form == NaNSignaling
	ok = verifAnd(ok, d.Coeff.Sign() >= 0)
	ok = verifAnd(ok, verifAnd(d.Exponent >= MinExponent, d.Exponent <= MaxExponent))
	return ok
}

// VerifParse: Decimal.SetString on every byte string of length n over the alphabet (C14, C04).
// alphabet = "ascii": every byte 0..127; "shaped": bytes that occur in numeric strings.
func VerifParse() {
	n := int(verifParamInt("n"))
	var s string
	if verifParamStr("alphabet") == "ascii" {
		s = verifNondetString("s", n, 0, 127)
	} else if verifParamStr("alphabet") == "bytes" {
		s = verifNondetString("s", n, 0, 255)
	} else {
		s = verifNondetString("s", n, '+', 'y')
		for i := 0; i < n; i++ {
			b := s[i]
			in := verifOr(verifIsDigit(b), verifOr(b == '+', verifOr(b == '-', b == '.')))
			const letters = "einfatysEINFATYS"
			for k := 0; k < len(letters); k++ {
				in = verifOr(in, b == letters[k])
			}
			verifAssume(in)
		}
	}
	var d Decimal
	verifHavoc("d0", &d)
	via := verifParamStr("via")
	var err error
	var ret *Decimal
	switch via {
	case "setstring":
		ret, _, err = d.SetString(s)
	case "unmarshal":
		err = d.UnmarshalText([]byte(s))
		ret = &d
	case "scanstring":
		err = d.Scan(s)
		ret = &d
	case "scanbytes":
		err = d.Scan([]byte(s))
		ret = &d
	case "new":
		ret, _, err = NewFromString(s)
	}
	verifObserveBool("err", err != nil)
	want := verifGrammar(s)
	verifAssert(verifIff(err == nil, want), "C14.parse.accepts_exactly_grammar")
	if err != nil {
		if via == "setstring" || via == "new" {
			verifAssert(ret == nil, "C14.parse.no_partial_value")
		}
		verifCover("parse.rejected")
		return
	}
	verifAssert(ret != nil, "C14.parse.returns_value")
	if ret == nil {
		return
	}
	verifAssert(verifWellFormed(ret), "C04.parse.wellformed")
	verifObserveInt("form", int64(ret.Form))
	verifObserveBool("neg", ret.Negative)
	if ret.Form == Finite {
		verifObserveInt("exp", int64(ret.Exponent))
		verifObserveBig("coeff", &ret.Coeff)
	}
	verifCover("parse.accepted")
}

// VerifParseDest: parsing is independent of what the destination held before (C06): the same
// string is parsed into two arbitrary destinations under the same (symbolic, small) context.
func VerifParseDest() {
	c := verifCtx()
	n := int(verifParamInt("n"))
	s := verifNondetString("s", n, '+', 'y')
	for i := 0; i < n; i++ {
		b := s[i]
		in := verifOr(verifIsDigit(b), verifOr(b == '+', verifOr(b == '-', b == '.')))
		const letters = "einfatysEINFATYS"
		for k := 0; k < len(letters); k++ {
			in = verifOr(in, b == letters[k])
		}
		verifAssume(in)
	}
	var d1, d2 Decimal
	verifHavoc("d1", &d1)
	verifHavoc("d2", &d2)
	// (previous exponents within the window: a stale exponent near +-100000 that leaks into the
	// result would make the rounding step enumerate ~10^5 shift amounts)
	W := verifParamInt("W")
	verifAssume(int64(d1.Exponent) >= -W && int64(d1.Exponent) <= W && int64(d2.Exponent) >= -W && int64(d2.Exponent) <= W)
	verifFreezeContext(c, "context")
	r1, res1, err1 := c.SetString(&d1, s)
	r2, res2, err2 := c.SetString(&d2, s)
	verifCheckFrozen()
	verifAssert((err1 != nil) == (err2 != nil), "C06.parse.err")
	verifAssert(res1 == res2, "C06.parse.flags")
	verifAssert((r1 == nil) == (r2 == nil), "C06.parse.ret")
	if r1 != nil && r2 != nil {
		verifAssert(verifSameObservable(r1, r2), "C06.parse.value")
		if r1.Form == r2.Form && (r1.Form == NaN || r1.Form == NaNSignaling || r1.Form == Infinite) {
			verifCover("parsedest.special")
		}
	}
}

// VerifAsciiLower: the real asciiLower against its contract (used as a summary by the parser
// harnesses): same length, ASCII upper-case letters lowered, every other byte (0..255) unchanged.
func VerifAsciiLower() {
	n := int(verifParamInt("n"))
	s := verifNondetString("s", n, 0, 255)
	got := asciiLower(s)
	verifObserveStr("lower", got)
	ok := len(got) == n
	if ok {
		for i := 0; i < n; i++ {
			up := verifAnd(s[i] >= 'A', s[i] <= 'Z')
			ok = verifAnd(ok, verifOr(verifAnd(up, got[i] == s[i]+32), verifAnd(verifNot(up), got[i] == s[i])))
		}
	}
	verifAssert(ok, "C14.asciilower.contract")
}
