package sym

import (
	"fmt"
	"go/types"
	"math/big"

	"golang.org/x/tools/go/ssa"
)

// Value is a symbolic run-time value.
type Value interface{}

// IntV is an integer (machine integer or, at Level A, an apd.BigInt value).
// T has sort Int or a bit-vector sort. Lo/Hi is a sound interval for the
// *mathematical* value when T is Int-encoded (nil = unbounded).
type IntV struct {
	T      *Term
	Lo, Hi *big.Int
}

type BoolV struct{ T *Term }

// StrV is a string or the contents of a byte sequence: concrete length, bytes are Int terms.
type StrV struct{ B []*Term }

type FloatV struct{ F float64 }

// PtrV points into an object; Obj == nil is the nil pointer.
type PtrV struct {
	Obj  *Object
	Path []int
}

// SliceV is a slice header with concrete shape.
type SliceV struct {
	Arr           *Object // object whose root value is *ArrayV
	Base          []int   // path to the array within Arr
	Off, Len, Cap int
	Nil           bool
}

type StructV struct{ F []Value }
type ArrayV struct{ E []Value }

type IfaceV struct {
	Typ types.Type // nil = nil interface
	V   Value
}

type TupleV []Value

type FuncV struct {
	Fn       *ssa.Function
	Bindings []Value
}

type OpaqueV struct{ What string }

// Object is a heap/stack/global allocation.
type Object struct {
	ID     int
	V      Value
	Name   string
	Global bool
	Frozen string // non-empty: role name; stores are violations
	Typ    types.Type
}

func (p PtrV) String() string {
	if p.Obj == nil {
		return "nil"
	}
	return fmt.Sprintf("&%s#%d%v", p.Obj.Name, p.Obj.ID, p.Path)
}

func ConstInt(v int64) IntV {
	b := big.NewInt(v)
	return IntV{T: IntConst(b), Lo: b, Hi: b}
}

func ConstBig(b *big.Int) IntV {
	c := new(big.Int).Set(b)
	return IntV{T: IntConst(c), Lo: c, Hi: c}
}

func ConstBool(b bool) BoolV { return BoolV{T: BoolConst(b)} }

func ConstStr(s string) StrV {
	b := make([]*Term, len(s))
	for i := 0; i < len(s); i++ {
		b[i] = IntConst64(int64(s[i]))
	}
	return StrV{B: b}
}

func (s StrV) Concrete() (string, bool) {
	out := make([]byte, len(s.B))
	for i, t := range s.B {
		if !t.IsConst() {
			return "", false
		}
		out[i] = byte(t.Val.Int64())
	}
	return string(out), true
}

func (v IntV) IsConst() bool { return v.T.IsConst() }
func (v IntV) Const() *big.Int {
	return v.T.Val
}
func (v IntV) IsBV() bool { return v.T.Sort > 0 }

func deepCopy(v Value) Value {
	switch x := v.(type) {
	case *StructV:
		n := &StructV{F: make([]Value, len(x.F))}
		for i, f := range x.F {
			n.F[i] = deepCopy(f)
		}
		return n
	case *ArrayV:
		n := &ArrayV{E: make([]Value, len(x.E))}
		for i, f := range x.E {
			n.E[i] = deepCopy(f)
		}
		return n
	case TupleV:
		n := make(TupleV, len(x))
		for i, f := range x {
			n[i] = deepCopy(f)
		}
		return n
	}
	return v
}

// intKind returns width and signedness of an integer type (after Underlying).
func intKind(t types.Type) (bits int, signed bool, ok bool) {
	b, isb := t.Underlying().(*types.Basic)
	if !isb {
		return 0, false, false
	}
	switch b.Kind() {
	case types.Int8:
		return 8, true, true
	case types.Int16:
		return 16, true, true
	case types.Int32:
		return 32, true, true
	case types.Int64, types.Int:
		return 64, true, true
	case types.Uint8:
		return 8, false, true
	case types.Uint16:
		return 16, false, true
	case types.Uint32:
		return 32, false, true
	case types.Uint64, types.Uint, types.Uintptr:
		return 64, false, true
	case types.UntypedInt, types.UntypedRune:
		return 64, true, true
	}
	return 0, false, false
}

func typeRange(bits int, signed bool) (*big.Int, *big.Int) {
	if signed {
		hi := new(big.Int).Lsh(bigOneI, uint(bits-1))
		lo := new(big.Int).Neg(hi)
		hi.Sub(hi, bigOneI)
		return lo, hi
	}
	hi := new(big.Int).Lsh(bigOneI, uint(bits))
	hi.Sub(hi, bigOneI)
	return big.NewInt(0), hi
}

func isFloat(t types.Type) bool {
	b, ok := t.Underlying().(*types.Basic)
	return ok && (b.Info()&types.IsFloat != 0)
}

func isString(t types.Type) bool {
	b, ok := t.Underlying().(*types.Basic)
	return ok && (b.Info()&types.IsString != 0)
}

func isBool(t types.Type) bool {
	b, ok := t.Underlying().(*types.Basic)
	return ok && (b.Info()&types.IsBoolean != 0)
}
