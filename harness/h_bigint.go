//go:build verif

package apd

// Level-B harnesses (C16, plus the BigInt part of C05): one inductive step of every BigInt
// method from arbitrary valid representations, against math/big's semantics.

// VerifBigBinary: z.Op(x, y) for op in add, sub, mul, quo, rem and alias pattern pat in
// none, zx, zy, xy, zxy.
func VerifBigBinary() {
	op := verifParamStr("op")
	pat := verifParamStr("pat")
	mh := int(verifParamInt("maxheap"))
	var x, y, z BigInt
	verifBigAny("x", &x, mh)
	verifBigAny("y", &y, mh)
	verifBigAny("z", &z, mh)
	px, py, pz := &x, &y, &z
	switch pat {
	case "zx":
		pz = px
	case "zy":
		pz = py
	case "xy":
		py = px
	case "zxy":
		pz, py = px, px
	}
	sx, sy := verifBigSnap(px), verifBigSnap(py)
	if op == "quo" || op == "rem" || op == "quorem" || op == "div" || op == "mod" {
		verifAssume(verifRefScalar("iszero", sy, -1) == 0) // documented: division by zero panics
	}
	var ret *BigInt
	var r BigInt
	switch op {
	case "add":
		ret = pz.Add(px, py)
	case "sub":
		ret = pz.Sub(px, py)
	case "mul":
		ret = pz.Mul(px, py)
	case "quo":
		ret = pz.Quo(px, py)
	case "rem":
		ret = pz.Rem(px, py)
	case "quorem":
		verifBigAny("r", &r, mh)
		ret, _ = pz.QuoRem(px, py, &r)
	// pass-through wrappers: math/big's result is an uninterpreted function of the operand
	// values; what is checked is that the wrapper hands over the right values (including the
	// alias-aware inner handles of Mod) and stores the result back correctly
	case "and":
		ret = pz.And(px, py)
	case "or":
		ret = pz.Or(px, py)
	case "xor":
		ret = pz.Xor(px, py)
	case "andnot":
		ret = pz.AndNot(px, py)
	case "div":
		ret = pz.Div(px, py)
	case "mod":
		ret = pz.Mod(px, py)
	}
	tag := "C16." + op
	verifAssert(ret == pz, tag+".returns_receiver")
	if op == "quorem" {
		verifAssert(verifBigIs(pz, "quo", sx, sy), tag+".value")
		verifAssert(verifBigIs(&r, "rem", sx, sy), tag+".remainder")
		verifAssert(verifBigInv(&r), tag+".remainder_invariant")
	} else {
		verifAssert(verifBigIs(pz, op, sx, sy), tag+".value")
	}
	verifAssert(verifBigInv(pz), tag+".invariant")
	if pat != "none" {
		// the same outcome as with distinct objects (C05): the reference is computed from the
		// operand values taken before the call
		if op == "quorem" {
			verifAssert(verifAnd(verifBigIs(pz, "quo", sx, sy), verifBigIs(&r, "rem", sx, sy)), "C05.big."+op+"."+pat+".value")
		} else {
			verifAssert(verifBigIs(pz, op, sx, sy), "C05.big."+op+"."+pat+".value")
		}
	}
	sz := verifBigSnap(pz)
	verifAssert(int64(pz.Sign()) == verifRefScalar("sign", sz, -1), tag+".sign_of_result") // zero is never negative
	if px != pz {
		verifAssert(verifBigUnchanged(px, sx), tag+".operand_x_unchanged")
		verifAssert(verifBigUnchanged(px, sx), "C18.big."+op+".operand_x_written")
	}
	if py != pz && py != px {
		verifAssert(verifBigUnchanged(py, sy), tag+".operand_y_unchanged")
		verifAssert(verifBigUnchanged(py, sy), "C18.big."+op+".operand_y_written")
	}
	if verifRefScalar("iszero", sz, -1) == 1 {
		verifCover("big.zero_result")
	}
	if pz._inner != nil && pz._inner != negSentinel {
		verifCover("big.heap_result")
	}
}

// VerifBigUnary: z.Op(x) for op in set, abs, neg; pattern none or zx.
func VerifBigUnary() {
	op := verifParamStr("op")
	mh := int(verifParamInt("maxheap"))
	var x, z BigInt
	verifBigAny("x", &x, mh)
	verifBigAny("z", &z, mh)
	px, pz := &x, &z
	if verifParamStr("pat") == "zx" {
		pz = px
	}
	sx := verifBigSnap(px)
	var ret *BigInt
	switch op {
	case "set":
		ret = pz.Set(px)
	case "abs":
		ret = pz.Abs(px)
	case "neg":
		ret = pz.Neg(px)
	case "not":
		ret = pz.Not(px)
	case "sqrt":
		verifAssume(verifRefScalar("sign", sx, -1) >= 0) // documented: Sqrt panics for negative x
		ret = pz.Sqrt(px)
	}
	tag := "C16." + op
	verifAssert(ret == pz, tag+".returns_receiver")
	verifAssert(verifBigIs(pz, op, sx, -1), tag+".value")
	if op == "set" {
		// (a copy must not keep anything of the destination's previous contents: C06)
		verifAssert(verifBigIs(pz, op, sx, -1), "C06.big.set.value")
	}
	verifAssert(verifBigInv(pz), tag+".invariant")
	sz := verifBigSnap(pz)
	verifAssert(int64(pz.Sign()) == verifRefScalar("sign", sz, -1), tag+".sign_of_result")
	if px != pz {
		verifAssert(verifBigUnchanged(px, sx), tag+".operand_unchanged")
	}
}

// VerifBigScalar: param what = cmp (Cmp, CmpAbs on two values), unary (Sign, IsInt64, IsUint64,
// Int64, Uint64, Bit(0)), bitlen, setters (SetInt64, SetUint64 from any previous state) - each
// against math/big on the same values.
func VerifBigScalar() {
	mh := int(verifParamInt("maxheap"))
	switch verifParamStr("what") {
	case "cmp":
		var x, y BigInt
		verifBigAny("x", &x, mh)
		verifBigAny("y", &y, mh)
		sx, sy := verifBigSnap(&x), verifBigSnap(&y)
		verifAssert(int64(x.Cmp(&y)) == verifRefScalar("cmp", sx, sy), "C16.scalar.cmp")
		verifAssert(int64(x.CmpAbs(&y)) == verifRefScalar("cmpabs", sx, sy), "C16.scalar.cmpabs")
		verifAssert(verifBigUnchanged(&x, sx), "C16.scalar.operand_x_unchanged")
		verifAssert(verifBigUnchanged(&y, sy), "C16.scalar.operand_y_unchanged")
		verifAssert(verifAnd(verifBigUnchanged(&x, sx), verifBigUnchanged(&y, sy)), "C18.big.cmp.operand_written")
	case "unary":
		var x BigInt
		verifBigAny("x", &x, mh)
		sx := verifBigSnap(&x)
		verifAssert(int64(x.Sign()) == verifRefScalar("sign", sx, -1), "C16.scalar.sign")
		verifAssert(x.IsInt64() == (verifRefScalar("isint64", sx, -1) == 1), "C16.scalar.isint64")
		verifAssert(x.IsUint64() == (verifRefScalar("isuint64", sx, -1) == 1), "C16.scalar.isuint64")
		verifAssert(int64(x.Uint64()) == verifRefScalar("low64", sx, -1), "C16.scalar.uint64")
		if x.IsInt64() {
			verifAssert(x.Int64() == verifRefScalar("int64", sx, -1), "C16.scalar.int64")
		}
		verifAssert(int64(x.Bit(0)) == verifRefScalar("bit0", sx, -1), "C16.scalar.bit0")
		verifAssert(verifBigUnchanged(&x, sx), "C16.scalar.operand_x_unchanged")
		verifAssert(verifBigUnchanged(&x, sx), "C18.big.scalar.operand_written")
	case "bitlen":
		var x BigInt
		verifBigAny("x", &x, mh)
		sx := verifBigSnap(&x)
		verifAssert(int64(x.BitLen()) == verifRefScalar("bitlen", sx, -1), "C16.scalar.bitlen")
		verifAssert(verifBigUnchanged(&x, sx), "C16.scalar.operand_x_unchanged")
	case "setters":
		var z BigInt
		verifBigAny("z", &z, mh)
		v := int64(verifNondetBits64("v"))
		z.SetInt64(v)
		verifAssert(verifBigInv(&z), "C16.setint64.invariant")
		verifAssert(z.IsInt64() && z.Int64() == v, "C16.setint64.value")
		sz := verifBigSnap(&z)
		verifAssert(int64(z.Sign()) == verifRefScalar("sign", sz, -1), "C16.setint64.sign")
		u := verifNondetBits64("u")
		z.SetUint64(u)
		verifAssert(verifBigInv(&z), "C16.setuint64.invariant")
		verifAssert(z.IsUint64() && z.Uint64() == u, "C16.setuint64.value")
	}
}

// VerifDecimalB: Decimal-level code on coefficients in ARBITRARY valid representations (Level B:
// heap-backed small values, dirty inline words) - the states that only arise after a history of
// operations. param what: cmp, reduce, reduce_inplace, newwithbigint, set.
func VerifDecimalB() {
	what := verifParamStr("what")
	mh := int(verifParamInt("maxheap"))
	coeff := func(name string, d *Decimal) int {
		verifBigAny(name, &d.Coeff, mh)
		s := verifBigSnap(&d.Coeff)
		verifAssume(verifRefScalar("sign", s, -1) >= 0) // coefficients are non-negative
		// small values in every representation (in particular heap-backed ones): the subject is
		// the representation handling of Decimal-level code, not its arithmetic (Level A)
		verifAssume(verifRefScalar("isuint64", s, -1) == 1 && uint64(verifRefScalar("low64", s, -1)) < 1024)
		d.Form = Finite
		d.Negative = verifNondetBool(name + "neg")
		d.Exponent = int32(verifNondetInt(name+"e", -2, 2))
		return s
	}
	switch what {
	case "cmp":
		var x, y Decimal
		sx, sy := coeff("x", &x), coeff("y", &y)
		r1 := x.Cmp(&y)
		r2 := y.Cmp(&x)
		verifAssert(r1 == -r2, "C15.levelb.cmp.antisym")
		if x.Exponent == y.Exponent && !x.Negative && !y.Negative {
			// equal exponents, both non-negative: the order of the coefficients, whatever their representation
			verifAssert(int64(r1) == verifRefScalar("cmp", sx, sy), "C15.levelb.cmp.value")
		}
		if x.Exponent == y.Exponent && x.Negative == y.Negative && verifRefScalar("cmp", sx, sy) == 0 {
			verifAssert(x.CmpTotal(&y) == 0, "C15.levelb.total.identical")
		}
		_ = x.CmpTotal(&y)
		ok := verifAnd(verifBigUnchanged(&x.Coeff, sx), verifBigUnchanged(&y.Coeff, sy))
		verifAssert(ok, "C18.dec.cmp.operand_written")
		verifAssert(ok, "C16.dec.cmp.operand_unchanged")
		verifAssert(ok, "C06.dec.cmp.operand_modified")
	case "reduce", "reduce_inplace":
		var x, d Decimal
		sx := coeff("x", &x)
		if what == "reduce" {
			verifBigAny("d", &d.Coeff, mh)
			_, n := d.Reduce(&x)
			verifAssert(n >= 0, "C04.levelb.reduce.count")
			verifAssert(verifBigUnchanged(&x.Coeff, sx), "C18.dec.reduce.operand_written")
			verifAssert(verifBigUnchanged(&x.Coeff, sx), "C16.dec.reduce.operand_unchanged")
			verifAssert(verifBigInv(&d.Coeff), "C16.dec.reduce.invariant")
			sd := verifBigSnap(&d.Coeff)
			verifAssert(verifRefScalar("sign", sd, -1) >= 0, "C07.levelb.reduce.coeff_nonneg")
		} else {
			_, n := x.Reduce(&x)
			verifAssert(n >= 0, "C04.levelb.reduce.count")
			verifAssert(verifBigInv(&x.Coeff), "C16.dec.reduce.invariant")
			sd := verifBigSnap(&x.Coeff)
			verifAssert(verifRefScalar("sign", sd, -1) >= 0, "C07.levelb.reduce.coeff_nonneg")
		}
	case "newwithbigint":
		var b BigInt
		verifBigAny("b", &b, mh)
		sb := verifBigSnap(&b)
		d := NewWithBigInt(&b, int32(verifNondetInt("e", -2, 2)))
		verifAssert(verifBigUnchanged(&b, sb), "C17.levelb.newwithbigint.argument_unchanged")
		verifAssert(verifBigIs(&d.Coeff, "abs", sb, -1), "C17.levelb.newwithbigint.value")
		verifAssert(d.Negative == (verifRefScalar("sign", sb, -1) < 0), "C17.levelb.newwithbigint.sign")
		// the Decimal owns its coefficient: changing it afterwards does not reach the argument
		d.Coeff.Add(&d.Coeff, bigOne)
		verifAssert(verifBigUnchanged(&b, sb), "C17.levelb.newwithbigint.not_shared")
	case "set":
		var x, d Decimal
		sx := coeff("x", &x)
		verifBigAny("d", &d.Coeff, mh)
		d.Set(&x)
		verifAssert(verifBigIs(&d.Coeff, "set", sx, -1), "C06.big.decset.value")
		verifAssert(verifBigUnchanged(&x.Coeff, sx), "C06.big.decset.operand")
	}
}
