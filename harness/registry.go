//go:build verif

package apd

// verifHarnesses maps harness names (as used by the engine) to their native entry points.
var verifHarnesses = map[string]func(){
	"VerifRound":     VerifRound,
	"VerifAdd":       VerifAdd,
	"VerifMul":       VerifMul,
	"VerifQuo":       VerifQuo,
	"VerifAbsNeg":    VerifAbsNeg,
	"VerifDivInt":    VerifDivInt,
	"VerifCmp":       VerifCmp,
	"VerifQuantize":  VerifQuantize,
	"VerifCeilFloor": VerifCeilFloor,
	"VerifCmpTotal":  VerifCmpTotal,
}
