package main

import (
	"fmt"
)

// CheckDef describes how one property is decided.
type CheckDef struct {
	Prop            string
	Enable          []string // assertion-id prefixes this property owns
	Instances       func(tier string) []Instance
	RequireCovers   []string
	PathModels      bool
	PathModelSample int
	Stubs           []string
	Bounds          map[string]interface{}
	Outside         []string
	Assumptions     []string
}

var allModes = []string{"down", "half_up", "half_even", "ceiling", "floor", "half_down", "up", "05up", ""}

func p(kv ...interface{}) map[string]string {
	m := map[string]string{}
	for i := 0; i+1 < len(kv); i += 2 {
		m[fmt.Sprint(kv[i])] = fmt.Sprint(kv[i+1])
	}
	return m
}

func merge(a map[string]string, b map[string]string) map[string]string {
	m := map[string]string{}
	for k, v := range a {
		m[k] = v
	}
	for k, v := range b {
		m[k] = v
	}
	return m
}

var stubsLevelA = []string{
	"apd.BigInt methods (Set, SetInt64, SetUint64, Add, Sub, Mul, Quo, Rem, QuoRem, Cmp, CmpAbs, Sign, Abs, Neg, Bit, BitLen, IsUint64, IsInt64, Uint64, Int64, Exp, Lsh, Rsh, String, Append, SetString, Bytes, FillBytes, SetBytes): mathematical integers with math/big's documented semantics (T-division; division by zero is a panic obligation); their agreement with the real bigint.go code is the subject of C16",
	"apd.NumDigits: fork on 10^(n-1) <= |b| < 10^n (the real table.go code is executed and checked in C19)",
	"errors.New, fmt.Errorf: fresh non-nil error, message ignored",
	"(Condition).String inside error construction: empty body (formatting is not the subject; executed for real in the C04 harness)",
	"strings.HasPrefix/IndexByte/ToLower (ASCII only), strconv.ParseInt/ParseUint/AppendInt/AppendUint (base 10): documented contracts",
}

var assumeCommon = []string{
	"go/ssa lowering of the Go source is faithful (x/tools v0.29.0); the gc build used for native replay agrees with it",
	"z3 5.1 answers are correct (unknown/timeout is reported as undecided, never as a pass)",
	"math/big, strconv, strings behave as documented (stub boundary)",
	"operands and contexts are well-formed as stated in the property's quantifier; everything outside the stated bounds is not claimed",
}

func inst(h string, w int, base map[string]string, kv ...interface{}) Instance {
	return Instance{Harness: h, Params: merge(base, p(kv...)), Weight: w}
}

// arithInstances: the single-rounding operations. Round carries all nine mode instances
// (the rounding decision is shared code); the other operations run under a representative
// subset in the quick tier and under all modes in the thorough tier.
func arithInstances(tier string, traps string) []Instance {
	var out []Instance
	quick := tier != "thorough"
	base := p("Pmin", 1, "regime", 0, "traps", traps)
	someModes := []string{"half_even", "floor", "up"}
	quoModes := []string{"half_even", "half_down", "ceiling", "05up"}
	if !quick {
		someModes, quoModes = allModes, allModes
	}
	if quick {
		for _, m := range allModes {
			out = append(out, inst("VerifRound", 6, base, "mode", m, "K", 5, "W", 7))
		}
		for _, m := range someModes {
			out = append(out, inst("VerifAdd", 9, base, "mode", m, "K", 2, "W", 2, "sub", 0))
			out = append(out, inst("VerifAdd", 9, base, "mode", m, "K", 2, "W", 2, "sub", 1))
			out = append(out, inst("VerifMul", 4, base, "mode", m, "K", 3, "W", 3))
			out = append(out, inst("VerifAbsNeg", 1, base, "mode", m, "K", 4, "W", 5, "op", "abs"))
			out = append(out, inst("VerifAbsNeg", 1, base, "mode", m, "K", 4, "W", 5, "op", "neg"))
		}
		for _, m := range quoModes {
			out = append(out, inst("VerifQuo", 10, base, "mode", m, "K", 3, "Kd", 1, "W", 3))
		}
		return out
	}
	for _, m := range allModes {
		out = append(out, inst("VerifRound", 8, base, "mode", m, "K", 9, "W", 12))
		out = append(out, inst("VerifAdd", 9, base, "mode", m, "K", 3, "W", 4, "sub", 0))
		out = append(out, inst("VerifAdd", 9, base, "mode", m, "K", 3, "W", 4, "sub", 1))
		out = append(out, inst("VerifMul", 5, base, "mode", m, "K", 5, "W", 6))
		out = append(out, inst("VerifAbsNeg", 1, base, "mode", m, "K", 7, "W", 10, "op", "abs"))
		out = append(out, inst("VerifAbsNeg", 1, base, "mode", m, "K", 7, "W", 10, "op", "neg"))
		out = append(out, inst("VerifQuo", 12, base, "mode", m, "K", 4, "Kd", 2, "W", 3))
	}
	return out
}

var checkDefs = map[string]*CheckDef{}

func init() {
	boundsArith := map[string]interface{}{
		"quick": map[string]interface{}{"Round": "K=5 digits, W=7 (operand exponent in [-W,W]; Emin in [-W,0], Emax in [0,W]), 9 modes",
			"Add/Sub": "K=2, W=2, modes half_even/floor/up", "Mul": "K=3, W=3, same modes", "Abs/Neg": "K=4, W=5",
			"Quo":       "dividend K=3 digits, divisor coefficient enumerated 1..9 (Kd=1), W=3, modes half_even/half_down/ceiling/05up",
			"precision": "1..K (each value)", "trap_sets": "Traps=0 (C01/C02/C07); all 2^32 trap words symbolic (C03)"},
		"thorough": map[string]interface{}{"Round": "K=9, W=12, 9 modes", "Add/Sub": "K=3, W=4, 9 modes", "Mul": "K=5, W=6, 9 modes", "Abs/Neg": "K=7, W=10",
			"Quo": "dividend K=4, divisor coefficient enumerated 1..99 (Kd=2), W=3, 9 modes", "precision": "1..K"},
	}
	outsideArith := []string{"coefficients with more than K digits", "exponents outside the stated windows (in particular the package limits +-100000: regimes 1/2 are thorough-only where listed)",
		"divisor coefficients beyond Kd digits (symbolic-by-symbolic division is enumerated over the divisor, not solved)",
		"Precision 0 except where an instance says Pmin=0", "context-aware parsing (covered with the parser in C14/C13)",
		"iterative functions (Sqrt, Cbrt, Exp, Ln, Log10, Pow): see not_applicable / per-property notes"}

	checkDefs["C01"] = &CheckDef{Prop: "C01", Enable: []string{"C01."},
		Instances:  func(tier string) []Instance { return arithInstances(tier, "zero") },
		PathModels: true, PathModelSample: 40, Stubs: stubsLevelA, Bounds: boundsArith, Outside: outsideArith, Assumptions: assumeCommon,
		RequireCovers: []string{"round.subnormal", "round.overflow", "round.inexact", "add.subnormal", "mul.overflow", "quo.subnormal", "quo.inexact"}}
	checkDefs["C02"] = &CheckDef{Prop: "C02", Enable: []string{"C02."},
		Instances: func(tier string) []Instance {
			return append(arithInstances(tier, "zero"), divIntInstances(tier, "zero")...)
		},
		PathModels: true, PathModelSample: 40, Stubs: stubsLevelA, Bounds: boundsArith, Outside: outsideArith, Assumptions: assumeCommon}
	checkDefs["C07"] = &CheckDef{Prop: "C07", Enable: []string{"C07."},
		Instances: func(tier string) []Instance {
			return append(append(arithInstances(tier, "zero"), divIntInstances(tier, "zero")...), quantizeInstances(tier, "zero")...)
		},
		PathModels: true, PathModelSample: 40, Stubs: stubsLevelA, Bounds: boundsArith, Outside: outsideArith, Assumptions: assumeCommon}
	checkDefs["C03"] = &CheckDef{Prop: "C03", Enable: []string{"C03."},
		Instances: func(tier string) []Instance {
			return append(append(arithInstances(tier, "sym"), divIntInstances(tier, "sym")...), quantizeInstances(tier, "sym")...)
		},
		PathModels: true, PathModelSample: 40, Stubs: stubsLevelA, Bounds: boundsArith, Outside: outsideArith, Assumptions: assumeCommon}
	checkDefs["C09"] = &CheckDef{Prop: "C09", Enable: []string{"C09."},
		Instances:  func(tier string) []Instance { return quantizeInstances(tier, "zero") },
		PathModels: true, PathModelSample: 40, Stubs: stubsLevelA, Assumptions: assumeCommon,
		Bounds:        map[string]interface{}{"quick": "x: K=3 digits, W=3; target exponent in [-W-4, W+4]; 9 modes for Quantize, 4 modes for RoundToIntegral*/Ceil/Floor", "thorough": "K=6, W=6, 9 modes"},
		Outside:       []string{"more digits / wider exponent windows", "Ceil/Floor results that needed rounding to the precision (property restricts them to integer parts that fit)"},
		RequireCovers: []string{"quantize.drop", "quantize.exact", "quantize.nan", "rti_exact.drop"}}
	checkDefs["C10"] = &CheckDef{Prop: "C10", Enable: []string{"C10."},
		Instances:  func(tier string) []Instance { return divIntInstances(tier, "zero") },
		PathModels: true, PathModelSample: 40, Stubs: stubsLevelA, Assumptions: assumeCommon,
		Bounds:        map[string]interface{}{"quick": "dividend K=3 digits, divisor coefficient enumerated 1..9, W=2 (exponent gap up to 4), modes half_even/floor/up", "thorough": "K=4, divisor 1..99, W=3, 9 modes"},
		Outside:       []string{"divisor coefficients above Kd digits", "exponent gaps beyond 2W (the upscale error path for gaps > 100000 is not exercised)"},
		RequireCovers: []string{"quoint.finite", "quoint.impossible", "rem.rounded"}}
	checkDefs["C15"] = &CheckDef{Prop: "C15", Enable: []string{"C15."},
		Instances: func(tier string) []Instance {
			K := 6
			if tier == "thorough" {
				K = 16
			}
			return []Instance{inst("VerifCmp", 2, p("K", K, "full", 1)), inst("VerifCmpTotal", 3, p("K", K, "full", 1))}
		},
		PathModels: true, PathModelSample: 150, Stubs: stubsLevelA, Assumptions: assumeCommon,
		Bounds:        map[string]interface{}{"quick": "coefficients up to 6 digits, exponents over the full package range [-100000, 100000], all four forms and signs", "thorough": "16 digits"},
		Outside:       []string{"coefficients with more digits", "transitivity of CmpTotal is not queried on triples: it follows from CmpTotal being equal to a comparison of keys in a totally ordered key space (asserted pairwise)"},
		RequireCovers: []string{"cmp.finite", "cmp.infinf"}}
}

func divIntInstances(tier string, traps string) []Instance {
	base := p("Pmin", 1, "regime", 0, "traps", traps)
	var out []Instance
	if tier != "thorough" {
		for _, m := range []string{"half_even", "floor", "up"} {
			out = append(out, inst("VerifDivInt", 10, base, "mode", m, "K", 3, "Kd", 1, "W", 2))
		}
		return out
	}
	for _, m := range allModes {
		out = append(out, inst("VerifDivInt", 12, base, "mode", m, "K", 4, "Kd", 2, "W", 3))
	}
	return out
}

func quantizeInstances(tier string, traps string) []Instance {
	base := p("Pmin", 1, "regime", 0, "traps", traps)
	var out []Instance
	K, W := 3, 3
	modes := []string{"half_even", "floor", "up", "05up"}
	if tier == "thorough" {
		K, W = 6, 6
		modes = allModes
	}
	for _, m := range allModes {
		out = append(out, inst("VerifQuantize", 5, base, "mode", m, "K", K, "W", W, "op", "quantize"))
	}
	for _, m := range modes {
		out = append(out, inst("VerifQuantize", 1, base, "mode", m, "K", K+1, "W", W+1, "op", "rti_exact"))
		out = append(out, inst("VerifQuantize", 1, base, "mode", m, "K", K+1, "W", W+1, "op", "rti_value"))
		out = append(out, inst("VerifCeilFloor", 1, base, "mode", m, "K", K+1, "W", W+1, "op", "ceil"))
		out = append(out, inst("VerifCeilFloor", 1, base, "mode", m, "K", K+1, "W", W+1, "op", "floor"))
	}
	return out
}
