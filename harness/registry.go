//go:build verif

package apd

// verifHarnesses maps harness names (as used by the engine) to their native entry points.
var verifHarnesses = map[string]func(){
	"VerifRound":         VerifRound,
	"VerifAdd":           VerifAdd,
	"VerifMul":           VerifMul,
	"VerifQuo":           VerifQuo,
	"VerifAbsNeg":        VerifAbsNeg,
	"VerifNumDigitsReal": VerifNumDigitsReal,
	"VerifTableExp10":    VerifTableExp10,
	"VerifReduce":        VerifReduce,
	"VerifInt64":         VerifInt64,
	"VerifModf":          VerifModf,
	"VerifConstruct":     VerifConstruct,
	"VerifSpecialBinary": VerifSpecialBinary,
	"VerifSpecialUnary":  VerifSpecialUnary,
	"VerifAlias":         VerifAlias,
	"VerifAliasDecimal":  VerifAliasDecimal,
	"VerifDestIndep":     VerifDestIndep,
	"VerifTrapsIndep":    VerifTrapsIndep,
	"VerifErrDecimal":    VerifErrDecimal,
	"VerifModes":         VerifModes,
	"VerifRelations":     VerifRelations,
	"VerifParse":         VerifParse,
	"VerifFormat":        VerifFormat,
	"VerifFormatFlags":   VerifFormatFlags,
	"VerifComposite":     VerifComposite,
	"VerifCompose":       VerifCompose,
	"VerifMisc":          VerifMisc,
	"VerifDivInt":        VerifDivInt,
	"VerifCmp":           VerifCmp,
	"VerifQuantize":      VerifQuantize,
	"VerifCeilFloor":     VerifCeilFloor,
	"VerifCmpTotal":      VerifCmpTotal,
}
